//! C24 — xlsx export then import preserves the workbook.
//!
//! A workbook is built through the `UserModel` API from a generated op list (`engine/ops.rs`
//! operation language): sheets with awkward names, hidden sheets, colours, frozen panes, grid
//! lines; cell inputs (strings with XML specials, control characters, `_xHHHH_` look-alikes,
//! arbitrary Unicode, numbers of every shape, formula trees from `formula_gen`, spills and CSE
//! arrays); every style attribute through `update_range_style`, `set_area_with_border` and
//! `on_paste_styles`; row/column sizes and hidden flags; defined names (global and sheet scoped);
//! hyperlinks; conditional formats of every rule kind of `CfRuleInput`. A second campaign mixes
//! these builder steps into histories of the shared operation language (structural edits,
//! copy/paste, autofill, undo/redo).
//!
//! Oracle: `save_xlsx_to_writer` -> `load_from_xlsx_bytes` -> `Model::from_workbook` -> `evaluate`,
//! then the observable snapshot (engine/snapshot.rs) restricted to what the statement lists must
//! be equal: sheets (names, order, visibility, colours), cell contents, value types and values
//! (numbers to 15 significant digits), array structure, number formats and styles (cell, row and
//! column styles), row heights / column widths (10 significant digits: the file carries the
//! shortest round-trip decimal of the stored f64, so nothing is lost), hidden flags, frozen panes,
//! grid lines, defined names, hyperlinks, conditional formats (order, range, rule, resolved dxf).
//! NOT compared: workbook name / locale / timezone, theme, named-style catalogue, view state,
//! sheet ids, formatted text, error messages / origins.
//!
//! Preconditions (cases skipped and counted): the original must be reproduced by the engine's
//! own `to_bytes`/`from_bytes` + `evaluate` (otherwise its values are history dependent: C26/C01
//! findings) and must satisfy C27's structure invariants.
//!
//! Listed findings are excluded by construction (`guard`: the trigger is in the op's arguments;
//! `fixups`: the trigger is a property of the state, one fix-up op each) and counted; the applied
//! ops (guards and fix-ups included) are what replay files hold, and replays run with every
//! switch off.
//!
//! Signatures: `C24:<aspect>:<cause>` where the aspect is that of the most structural differing
//! entry and the cause is derived from the entry (first differing JSON path and value classes,
//! text features, formula features) and the original model.
//!
//! Development aids: `VERIF_C24_SURVEY=1` (all failure signatures with counts and smallest
//! example, no shrinking), `VERIF_C24_SCALE=<f>` (scale case counts), `VERIF_C24_ALL_AVOID=1`
//! (all switches on, also in replay), `VERIF_C24_TIMES=1` (phase timings), `VERIF_C24_SLOW=1`
//! (print cases whose build takes > 2 s), `VERIF_C24_PANICS=1` (print cases ended by a panicking
//! op), `VERIF_C24_DUMP=<key part>` (dump snapshot entries and cells before/after).

use std::io::Cursor;
use std::sync::Arc;

use ironcalc_base::cf_types::{
    icon_set_icons, CfRuleInput, Cfvo, ColorScaleThreshold, Icon, IconThreshold, PeriodType, TextOperator, ValueOperator,
};
use ironcalc_base::types::{
    Alignment, Border, BorderItem, BorderStyle, Cell, Color, Dxf, DxfFont, Fill, Font, FontScheme, HorizontalAlignment, Link,
    NumFmt, Style, VerticalAlignment,
};
use ironcalc_base::{Model, UserModel};
use proptest::prelude::*;
use serde::{Deserialize, Serialize};
use serde_json::Value;

use super::c09::Steer;
use super::formula_gen::{self as fg, FTree};
use crate::engine::ops::{self, Applied, Op, Profile, A, LAST_COLUMN, LAST_ROW};
use crate::engine::snapshot::{self, DiffEntry, SnapOpts, Snapshot};
use crate::engine::{panics, Ctx, Outcome, Tier};

#[derive(Clone, Debug, Serialize, Deserialize)]
pub struct Case {
    pub locale: String,
    pub language: String,
    /// formula-tree rewrites made by the generator to steer away from listed C09 findings
    #[serde(default)]
    pub steered: u64,
    pub ops: Vec<Op>,
}

// ------------------------------------------------------------------------------------------------
// Avoidance switches (each belongs to a listed C24 finding; off in strict replay)

#[derive(Clone, Debug, Default)]
pub struct Avoid {
    pub on: Vec<String>,
}

impl Avoid {
    pub fn from_ctx(ctx: &Ctx) -> Avoid {
        let mut on = vec![];
        let all = std::env::var("VERIF_C24_ALL_AVOID").is_ok();
        if !ctx.strict || all {
            for s in SWITCHES {
                if all || ctx.avoid(s) {
                    on.push(s.to_string());
                }
            }
        }
        Avoid { on }
    }
    fn has(&self, s: &str) -> bool {
        self.on.iter().any(|x| x == s)
    }
}

const SWITCHES: &[&str] = &[
    "c24-row-attrs-without-cells",
    "c24-sheet-color",
    "c24-border-dotted",
    "c24-border-diagonal-flags",
    "c24-noncharacter",
    "c24-xlsx-escape-not-decoded",
    "c24-attribute-tab",
    "c24-sheet-name-exclamation",
    "c24-cf-text-equals",
    "c24-cf-timeperiod-between",
    "c24-cf-custom-icons",
    "c24-cf-dxf-font-false",
    "c24-cf-dxf-alignment",
    "c24-link-empty-location",
    "c24-implicit-intersection-added",
    "c24-explicit-at-dropped-in-array",
    "c24-parse-error-formula",
    "c24-dangling-name-scope",
    "c24-escape-collision",
];

// ------------------------------------------------------------------------------------------------
// Building the workbook

pub struct Built {
    pub um: UserModel<'static>,
    /// the ops that were really applied (after guards), plus fix-up ops: replaying these with all
    /// switches off reaches the same state
    pub effective: Vec<Op>,
    pub excluded: u64,
    pub labels: Vec<String>,
    pub aborted: Option<String>,
}

fn has_nonchar(s: &str) -> bool {
    s.chars().any(|c| c == '\u{fffe}' || c == '\u{ffff}')
}

/// control characters the exporter writes as `_xHHHH_`, or a literal `_xHHHH_`
fn needs_x_escape(s: &str) -> bool {
    // (noncharacters too: once the exporter encodes them they share the fate of the others)
    has_x_escape_prefix(s) || has_nonchar(s) || s.chars().any(|c| (c as u32) < 0x20 && !matches!(c, '\t' | '\n' | '\r'))
}

/// `_xHHHH` directly followed by a character the exporter writes as `_xHHHH_`: the emitted
/// escape supplies the closing underscore of a look-alike the exporter did not protect
fn escape_collision(s: &str) -> bool {
    let c: Vec<char> = s.chars().collect();
    (0..c.len()).any(|i| {
        i + 6 < c.len()
            && c[i] == '_'
            && c[i + 1] == 'x'
            && c[i + 2..i + 6].iter().all(|h| h.is_ascii_hexdigit())
            && ((c[i + 6] as u32) < 0x20 && !matches!(c[i + 6], '\t' | '\n' | '\r'))
    })
}

fn border_sides(b: &Border) -> [&Option<BorderItem>; 5] {
    [&b.left, &b.right, &b.top, &b.bottom, &b.diagonal]
}

fn border_has_dotted(b: &Border) -> bool {
    border_sides(b).iter().any(|i| matches!(i, Some(BorderItem { style: BorderStyle::Dotted, .. })))
}

fn rule_dxf(rule: &CfRuleInput) -> Option<&Dxf> {
    match rule {
        CfRuleInput::CellIs { format, .. }
        | CfRuleInput::Text { format, .. }
        | CfRuleInput::Formula { format, .. }
        | CfRuleInput::TimePeriod { format, .. }
        | CfRuleInput::DuplicateValues { format, .. }
        | CfRuleInput::UniqueValues { format, .. }
        | CfRuleInput::Blanks { format, .. }
        | CfRuleInput::NotBlanks { format, .. }
        | CfRuleInput::Errors { format, .. }
        | CfRuleInput::NoErrors { format, .. }
        | CfRuleInput::AboveAverage { format, .. }
        | CfRuleInput::BelowAverage { format, .. }
        | CfRuleInput::Top10 { format, .. }
        | CfRuleInput::Bottom10 { format, .. } => Some(format),
        _ => None,
    }
}

fn cfvo_formula(c: &Cfvo) -> Option<&str> {
    match c {
        Cfvo::Formula(f) => Some(f.as_str()),
        _ => None,
    }
}

/// Strings of a rule that travel as formulas or attributes.
fn rule_strings(rule: &CfRuleInput) -> Vec<&str> {
    let mut v: Vec<&str> = vec![];
    match rule {
        CfRuleInput::CellIs { formula, formula2, .. } => {
            v.push(formula);
            if let Some(f) = formula2 {
                v.push(f);
            }
        }
        CfRuleInput::Formula { formula, .. } => v.push(formula),
        CfRuleInput::Text { value, .. } => v.push(value),
        CfRuleInput::ColorScale { thresholds } => v.extend(thresholds.iter().filter_map(|t| cfvo_formula(&t.cfvo))),
        CfRuleInput::DataBar { min, max, .. } => {
            v.extend(min.iter().filter_map(cfvo_formula));
            v.extend(max.iter().filter_map(cfvo_formula));
        }
        CfRuleInput::IconSet { thresholds, .. } => v.extend(thresholds.iter().filter_map(|t| cfvo_formula(&t.cfvo))),
        CfRuleInput::IconRating { thresholds, .. } => v.extend(thresholds.iter().filter_map(|t| cfvo_formula(&t.0))),
        _ => {}
    }
    if let Some(d) = rule_dxf(rule) {
        if let Some(n) = &d.num_fmt {
            v.push(&n.format_code);
        }
    }
    v
}

/// Strings of an op that end up in XML attributes (sheet names, names, links, fonts, number
/// formats, rule texts) -- `formulas`: those that end up as formula text in elements.
fn op_strings(op: &Op) -> (Vec<&str>, Vec<&str>) {
    let mut attrs: Vec<&str> = vec![];
    let mut formulas: Vec<&str> = vec![];
    match op {
        Op::Input { text, .. } | Op::ArrayFormula { text, .. } => {
            // inputs starting with a sign are formulas too
            if text.starts_with(['=', '+', '-', '@']) || matches!(op, Op::ArrayFormula { .. }) {
                formulas.push(text);
            }
            // typed URLs and e-mail addresses are linked automatically: the text becomes a link
            // target (an attribute of the relationship part)
            let t = text.trim().to_ascii_lowercase();
            if !t.chars().any(char::is_whitespace) && (t.contains('@') || t.contains("://") || t.starts_with("www.") || t.starts_with("mailto:")) {
                attrs.push(text);
            }
        }
        Op::RenameSheet(_, n) => attrs.push(n),
        Op::NameNew { name, formula, .. } => {
            attrs.push(name);
            formulas.push(formula);
        }
        Op::NameUpdate { new_name, formula, .. } => {
            attrs.push(new_name);
            formulas.push(formula);
        }
        Op::LinkSet { link, label, .. } => {
            match link {
                Link::External { target, tooltip } => {
                    attrs.push(target);
                    attrs.extend(tooltip.iter().map(|s| s.as_str()));
                }
                Link::Internal { location, tooltip } => {
                    attrs.push(location);
                    attrs.extend(tooltip.iter().map(|s| s.as_str()));
                }
            }
            if let Some(l) = label {
                if l.starts_with(['=', '+', '-', '@']) {
                    formulas.push(l);
                }
            }
        }
        Op::UpdateStyle { path, value, .. } if path == "num_fmt" => attrs.push(value),
        Op::PasteStyles { style, .. } | Op::NamedStyleCreate { style, .. } | Op::NamedStyleUpdate { style, .. } => {
            attrs.push(&style.num_fmt);
            attrs.push(&style.font.name);
        }
        Op::CfAdd { rule, .. } | Op::CfUpdate { rule, .. } => {
            // rule texts travel as attributes (text=, val=) or as <formula> elements: neither is decoded
            for s in rule_strings(rule) {
                attrs.push(s);
            }
        }
        Op::PasteCsv { csv, .. } => {
            if csv.contains('=') {
                formulas.push(csv);
            }
        }
        _ => {}
    }
    (attrs, formulas)
}

fn standard_icon_set(thresholds: &[IconThreshold]) -> bool {
    ICON_SETS.iter().any(|name| {
        icon_set_icons(name)
            .map(|icons| icons.len() == thresholds.len() && icons.iter().zip(thresholds).all(|((i, c), t)| *i == t.icon && *c == t.color))
            .unwrap_or(false)
    })
}

fn standard_rating(icon: &Icon, color: &Color, n: usize) -> bool {
    let rgb = |s: &str| *color == Color::Rgb(s.to_string());
    match (icon, n) {
        (Icon::Star, 3) => rgb("#FFD700"),
        (Icon::Circle, 5) => rgb("#FFD700"),
        (Icon::FlatRectangle, 3..=5) => rgb("#4472C4"),
        _ => false,
    }
}

fn dxf_alignment_supported(a: &Alignment) -> bool {
    matches!(
        a.horizontal,
        HorizontalAlignment::General | HorizontalAlignment::Center | HorizontalAlignment::Left | HorizontalAlignment::Right | HorizontalAlignment::Justify
    ) && matches!(a.vertical, VerticalAlignment::Bottom | VerticalAlignment::Center | VerticalAlignment::Top)
}

/// Guards that depend on the op alone: the trigger of a listed finding is in its arguments.
fn guard(um: &UserModel, op: &Op, avoid: &Avoid) -> Option<&'static str> {
    if avoid.on.is_empty() {
        return None;
    }
    let (attrs, formulas) = op_strings(op);
    if avoid.has("c24-noncharacter") {
        let mut all: Vec<&str> = attrs.clone();
        all.extend(formulas.iter());
        match op {
            Op::Input { text, .. } => all.push(text),
            Op::LinkSet { label: Some(l), .. } => all.push(l),
            Op::PasteCsv { csv, .. } => all.push(csv),
            _ => {}
        }
        if all.iter().any(|s| has_nonchar(s)) {
            return Some("c24-noncharacter");
        }
    }
    if avoid.has("c24-escape-collision") {
        let hit = match op {
            Op::Input { text, .. } => escape_collision(text),
            Op::LinkSet { label: Some(l), .. } => escape_collision(l),
            Op::PasteCsv { csv, .. } => escape_collision(csv),
            _ => false,
        };
        if hit {
            return Some("c24-escape-collision");
        }
    }
    if avoid.has("c24-xlsx-escape-not-decoded") && attrs.iter().chain(formulas.iter()).any(|s| needs_x_escape(s)) {
        return Some("c24-xlsx-escape-not-decoded");
    }
    if avoid.has("c24-attribute-tab") && attrs.iter().any(|s| s.contains('\t')) {
        return Some("c24-attribute-tab");
    }
    match op {
        Op::RenameSheet(_, n) if avoid.has("c24-sheet-name-exclamation") && n.contains('!') => return Some("c24-sheet-name-exclamation"),
        Op::SheetColor(_, c) | Op::SheetColorRaw(_, c) if avoid.has("c24-sheet-color") && !c.is_empty() => return Some("c24-sheet-color"),
        Op::Border { style, kind, .. } if avoid.has("c24-border-dotted") && style == "dotted" && kind != "None" => return Some("c24-border-dotted"),
        Op::PasteStyles { style, .. } => {
            if avoid.has("c24-border-dotted") && border_has_dotted(&style.border) {
                return Some("c24-border-dotted");
            }
            if avoid.has("c24-border-diagonal-flags") && (style.border.diagonal_up || style.border.diagonal_down) {
                return Some("c24-border-diagonal-flags");
            }
        }
        Op::LinkSet { link: Link::Internal { location, .. }, .. } if avoid.has("c24-link-empty-location") && location.is_empty() => {
            return Some("c24-link-empty-location")
        }
        Op::CfAdd { rule, .. } | Op::CfUpdate { rule, .. } => {
            if let Some(d) = rule_dxf(rule) {
                if avoid.has("c24-border-dotted") && d.border.as_ref().map(border_has_dotted).unwrap_or(false) {
                    return Some("c24-border-dotted");
                }
                if avoid.has("c24-cf-dxf-font-false") {
                    if let Some(f) = &d.font {
                        if [f.b, f.i, f.u, f.strike].contains(&Some(false)) {
                            return Some("c24-cf-dxf-font-false");
                        }
                    }
                }
                if avoid.has("c24-cf-dxf-alignment") && d.alignment.as_ref().map(|a| !dxf_alignment_supported(a)).unwrap_or(false) {
                    return Some("c24-cf-dxf-alignment");
                }
            }
            match &**rule {
                CfRuleInput::Text { operator: TextOperator::Equals, .. } if avoid.has("c24-cf-text-equals") => return Some("c24-cf-text-equals"),
                CfRuleInput::TimePeriod { time_period: PeriodType::Between | PeriodType::NotBetween, .. } if avoid.has("c24-cf-timeperiod-between") => {
                    return Some("c24-cf-timeperiod-between")
                }
                CfRuleInput::IconSet { thresholds, .. } if avoid.has("c24-cf-custom-icons") && !standard_icon_set(thresholds) => return Some("c24-cf-custom-icons"),
                CfRuleInput::IconRating { icon, color, thresholds, .. } if avoid.has("c24-cf-custom-icons") && !standard_rating(icon, color, thresholds.len()) => {
                    return Some("c24-cf-custom-icons")
                }
                _ => {}
            }
        }
        Op::DeleteSheet(s) if avoid.has("c24-dangling-name-scope") => {
            // C27 finding: delete_sheet leaves names scoped to the deleted sheet behind; the
            // exporter then panics
            let sh = ops::res_sheet(um, *s);
            let model = um.get_model();
            if let Some(ws) = model.workbook.worksheets.get(sh as usize) {
                if model.workbook.defined_names.iter().any(|d| d.sheet_id == Some(ws.sheet_id)) {
                    return Some("c24-dangling-name-scope");
                }
            }
        }
        _ => {}
    }
    None
}

/// Triggers of listed findings that are a property of the final state: one fix-up op each.
fn fixups(um: &UserModel, language: &str, locale: &str, avoid: &Avoid, end: bool) -> Vec<(Op, &'static str)> {
    use ironcalc_base::expressions::parser::static_analysis::{add_implicit_intersection, remove_redundant_implicit_intersection};
    use ironcalc_base::expressions::parser::stringify::to_rc_format;
    use ironcalc_base::expressions::parser::Node;
    let mut out = vec![];
    if avoid.on.is_empty() {
        return out;
    }
    let model = um.get_model();
    for (si, ws) in model.workbook.worksheets.iter().enumerate() {
        if si >= 200 {
            break;
        }
        let s = si as u8;
        if end && avoid.has("c24-row-attrs-without-cells") {
            for r in &ws.rows {
                let has_cells = ws.sheet_data.get(&r.r).map(|d| !d.is_empty()).unwrap_or(false);
                if !has_cells {
                    // a style-only cell with the style the position already shows
                    let italic = model.get_style_for_cell(si as u32, r.r, 1).map(|st| st.font.i).unwrap_or(false);
                    out.push((
                        Op::UpdateStyle { a: A { s, row: r.r, col: 1, w: 1, h: 1 }, path: "font.i".into(), value: italic.to_string() },
                        "c24-row-attrs-without-cells",
                    ));
                }
            }
        }
        let ii_added = end && avoid.has("c24-implicit-intersection-added");
        let at_dropped = end && avoid.has("c24-explicit-at-dropped-in-array");
        // (also in en/en: a re-parse can make a stored formula unparsable, e.g. a new defined name
        // that collides with a LAMBDA parameter; its text is then R1C1 notation)
        let parse_err = avoid.has("c24-parse-error-formula");
        let _ = (language, locale);
        if !(ii_added || at_dropped || parse_err) {
            continue;
        }
        let mut cells: Vec<(i32, i32, i32, i32)> = vec![];
        for (&row, rd) in &ws.sheet_data {
            for (&col, cell) in rd {
                let (f, is_array, w, h) = match cell {
                    Cell::CellFormula { f, .. } => (*f, false, 1, 1),
                    Cell::ArrayFormula { f, r, .. } => (*f, true, r.0.max(1), r.1.max(1)),
                    _ => continue,
                };
                let Some((node, _)) = model.parsed_formulas.get(si).and_then(|p| p.get(f as usize)) else { continue };
                if parse_err {
                    let mut bad = false;
                    crate::engine::nodes::walk(node, &mut |n| {
                        if matches!(n, Node::ParseErrorKind { .. }) {
                            bad = true
                        }
                    });
                    if bad {
                        cells.push((row, col, w, h));
                        continue;
                    }
                }
                if (is_array && at_dropped) || (!is_array && ii_added) {
                    // what the exporter strips and the importer re-inserts, on the tree itself
                    let mut n = node.clone();
                    remove_redundant_implicit_intersection(&mut n, true);
                    if !is_array {
                        add_implicit_intersection(&mut n, true);
                    }
                    if to_rc_format(&n) != to_rc_format(node) {
                        cells.push((row, col, w, h));
                    }
                }
            }
        }
        cells.sort();
        for (row, col, w, h) in cells {
            out.push((Op::ClearContents(A { s, row, col, w, h }), "c24-formula-implicit-intersection-or-parse-error"));
        }
    }
    out
}

pub fn build(case: &Case, avoid: &Avoid) -> Built {
    let mut b = Built {
        um: ops::new_user_model(&case.locale, &case.language),
        effective: vec![],
        excluded: 0,
        labels: vec![],
        aborted: None,
    };
    let run = |b: &mut Built, op: &Op| -> bool {
        match ops::apply(&mut b.um, op) {
            Applied::Panic(p) => {
                // a panic inside an operation is another property's business (C04/C11/..)
                b.aborted = Some(format!("op-panicked:{}:{}", op.kind(), p.class()));
                false
            }
            Applied::Ok | Applied::Flushed(_) => {
                b.labels.push(format!("ok:{}", op.kind()));
                b.effective.push(op.clone());
                true
            }
            Applied::Err(_) => {
                b.labels.push(format!("err:{}", op.kind()));
                // failed operations may leave traces (C04); keep them so that the replay is exact
                b.effective.push(op.clone());
                true
            }
        }
    };
    for op in &case.ops {
        // evaluation cadence and language are fixed per case
        if matches!(op, Op::Pause | Op::Resume | Op::SetLanguage(_) | Op::Flush) {
            continue;
        }
        if let Some(reason) = guard(&b.um, op, avoid) {
            b.excluded += 1;
            b.labels.push(format!("guard-skipped:{reason}"));
            continue;
        }
        if !run(&mut b, op) {
            return b;
        }
        // an unparsable formula is cleared at once: a later re-parse of the stored texts (new
        // sheet, rename, ...) would turn its text into some other formula (listed under C01)
        if avoid.has("c24-parse-error-formula") && !matches!(op, Op::SelectSheet(_) | Op::SelectCell { .. } | Op::UpdateStyle { .. } | Op::Border { .. }) {
            for (fx, reason) in fixups(&b.um, &case.language, &case.locale, avoid, false) {
                b.excluded += 1;
                b.labels.push(format!("fix-up:{reason}"));
                if !run(&mut b, &fx) {
                    return b;
                }
            }
        }
    }
    // state-level triggers: fix-up ops until none is left (clearing a formula can unblock a spill)
    for _ in 0..4 {
        let fx = fixups(&b.um, &case.language, &case.locale, avoid, true);
        if fx.is_empty() {
            break;
        }
        for (op, reason) in fx {
            b.excluded += 1;
            b.labels.push(format!("fix-up:{reason}"));
            if !run(&mut b, &op) {
                return b;
            }
        }
    }
    b
}

// ------------------------------------------------------------------------------------------------
// Observation restricted to the statement

fn upper_hex_colors(s: &str) -> String {
    // "#a1b2c3" and "#A1B2C3" are the same colour
    let b: Vec<char> = s.chars().collect();
    let mut out = String::with_capacity(s.len());
    let mut i = 0;
    while i < b.len() {
        if b[i] == '#' && i + 6 < b.len() + 0 && b[i + 1..i + 7].iter().all(|c| c.is_ascii_hexdigit()) {
            out.push('#');
            for c in &b[i + 1..i + 7] {
                out.push(c.to_ascii_uppercase());
            }
            i += 7;
        } else {
            out.push(b[i]);
            i += 1;
        }
    }
    out
}

fn strip_eq(v: &mut Value, field: &str) {
    if let Some(s) = v.get(field).and_then(|f| f.as_str()) {
        let t = s.trim();
        let t = t.strip_prefix('=').unwrap_or(t).to_string();
        v[field] = Value::String(t);
    }
}

pub fn observe(model: &Model) -> Snapshot {
    let opts = SnapOpts { sig15: true, formatted: false, workbook_meta: false, view: false, sizes: true };
    let mut m = snapshot::snapshot(model, opts);
    let keys: Vec<String> = m.keys().cloned().collect();
    for k in keys {
        if k.ends_with("].id") {
            m.remove(&k);
            continue;
        }
        if k.contains(".cf[") {
            m.remove(&k);
            continue;
        }
        if k.starts_with("defined_name[") {
            // a name's formula is the same formula with or without its leading '='
            let v = m[&k].clone();
            if let Some((name, f)) = v.split_once(" = ") {
                let f = f.trim();
                let f = f.strip_prefix('=').unwrap_or(f);
                m.insert(k, format!("{name} = {f}"));
            }
            continue;
        }
        if k.contains(".style") || k.ends_with("].color") {
            let v = upper_hex_colors(&m[&k]);
            m.insert(k, v);
        }
    }
    // conditional formats: by priority order, resolved dxf; a rule formula is the same formula
    // with or without its leading '=' (the API accepts both); `$` in the range selects the same
    // cells
    for (i, _) in model.workbook.worksheets.iter().enumerate() {
        if let Ok(list) = model.get_conditional_formatting_list(i as u32) {
            for (pos, cf) in list.iter().enumerate() {
                let dxf = model
                    .get_dxf_for_conditional_formatting(i as u32, cf.index)
                    .map(|d| {
                        // a differential font that sets nothing is no font
                        let d = d.map(|mut d| {
                            if d.font == Some(DxfFont::default()) {
                                d.font = None;
                            }
                            d
                        });
                        serde_json::to_string(&d).unwrap_or_default()
                    })
                    .unwrap_or_else(|e| format!("<error {e}>"));
                let mut rule = serde_json::to_value(&cf.cf_rule).unwrap_or_default();
                if let Some(o) = rule.as_object_mut() {
                    o.remove("dxf_id");
                }
                match rule.get("type").and_then(|t| t.as_str()) {
                    Some("Formula") => strip_eq(&mut rule, "formula"),
                    Some("CellIs") => {
                        strip_eq(&mut rule, "formula");
                        if rule.get("formula2").map(|f| f.is_string()).unwrap_or(false) {
                            strip_eq(&mut rule, "formula2");
                        }
                    }
                    _ => {}
                }
                m.insert(
                    format!("sheet[{i}].cf[{pos}]"),
                    upper_hex_colors(&format!("range={} rule={} dxf={}", cf.range.replace('$', ""), rule, dxf)),
                );
            }
        }
    }
    m
}

// ------------------------------------------------------------------------------------------------
// Round trip

pub enum Trip {
    Ok(Model<'static>),
    Fail(String, String),
}

pub fn xlsx_round_trip(model: &Model, language: &str) -> Trip {
    let t_export = std::time::Instant::now();
    let bytes = match panics::catch(|| ironcalc::export::save_xlsx_to_writer(model, Cursor::new(Vec::new()))) {
        Err(p) => return Trip::Fail(format!("C24:export:{}", p.class()), format!("save_xlsx_to_writer panicked: {}", p.describe())),
        Ok(Err(e)) => return Trip::Fail(format!("C24:export:error:{}", msg_class(&format!("{e}"))), format!("save_xlsx_to_writer returned Err({e})")),
        Ok(Ok(w)) => w.into_inner(),
    };
    let timing = std::env::var("VERIF_C24_TIMES").is_ok();
    let t0 = std::time::Instant::now();
    if timing {
        eprintln!("  exported {} bytes in {:?}", bytes.len(), t_export.elapsed());
    }
    let locale = model.get_locale();
    let tz = model.get_timezone();
    let wb = match panics::catch(|| ironcalc::import::load_from_xlsx_bytes(&bytes, "model", &locale, &tz)) {
        Err(p) => return Trip::Fail(format!("C24:import:{}", p.class()), format!("load_from_xlsx_bytes panicked on the exported file: {}", p.describe())),
        Ok(Err(e)) => {
            return Trip::Fail(
                format!("C24:import:error:{}", msg_class(&format!("{e}"))),
                format!("load_from_xlsx_bytes rejects the exported file: {e}"),
            )
        }
        Ok(Ok(wb)) => wb,
    };
    if timing {
        eprintln!("  imported {:?}", t0.elapsed());
    }
    let lang = ops::leak(language);
    let mut loaded = match panics::catch(|| Model::from_workbook(wb, lang)) {
        Err(p) => return Trip::Fail(format!("C24:from_workbook:{}", p.class()), p.describe()),
        Ok(Err(e)) => return Trip::Fail(format!("C24:from_workbook:error:{}", msg_class(&e)), format!("Model::from_workbook returned Err({e})")),
        Ok(Ok(m)) => m,
    };
    if timing {
        eprintln!("  from_workbook {:?}", t0.elapsed());
    }
    if let Err(p) = panics::catch(|| loaded.evaluate()) {
        return Trip::Fail(format!("C24:evaluate:{}", p.class()), p.describe());
    }
    if timing {
        eprintln!("  evaluated {:?}", t0.elapsed());
    }
    Trip::Ok(loaded)
}

/// Class of an error message: digits and quoted payloads normalised.
fn msg_class(msg: &str) -> String {
    let mut out = String::new();
    let mut last_digit = false;
    let mut in_quote = false;
    for c in msg.chars() {
        if c == '\'' || c == '"' {
            in_quote = !in_quote;
            out.push('"');
            continue;
        }
        if in_quote {
            continue;
        }
        if c.is_ascii_digit() {
            if !last_digit {
                out.push('N');
            }
            last_digit = true;
        } else {
            last_digit = false;
            out.push(if c == ' ' { '_' } else { c });
        }
        if out.len() > 60 {
            break;
        }
    }
    out
}

// ------------------------------------------------------------------------------------------------
// Classification of differences into root-cause signatures

fn aspect_rank(aspect: &str) -> u32 {
    // structure first: a difference in the sheet list makes everything else meaningless
    match aspect {
        "sheets.count" => 0,
        a if a.starts_with("sheet.name") => 1,
        a if a.starts_with("sheet.state") => 2,
        a if a.starts_with("sheet.color") => 3,
        "defined_name" => 4,
        "sheet.cell.array" => 5,
        "sheet.cell.content" => 6,
        "sheet.cell.value" => 7,
        a if a.starts_with("sheet.cell.style") => 8,
        a if a.starts_with("sheet.row") => 9,
        a if a.starts_with("sheet.cols") => 10,
        "sheet.link" => 11,
        "sheet.cf" => 12,
        _ => 13,
    }
}

fn needs_xml_care(s: &str) -> bool {
    s.chars().any(|c| matches!(c, '<' | '>' | '&' | '"' | '\'') || (c as u32) < 0x20 || c == '\u{fffe}' || c == '\u{ffff}') || has_x_escape_lookalike(s)
}

fn has_x_escape_lookalike(s: &str) -> bool {
    let b = s.as_bytes();
    (0..b.len()).any(|i| {
        b.len() >= i + 7 && b[i] == b'_' && b[i + 1] == b'x' && b[i + 6] == b'_' && b[i + 2..i + 6].iter().all(|c| c.is_ascii_hexdigit())
    })
}

/// `_xHHHH` (the closing underscore can come from a following escape)
fn has_x_escape_prefix(s: &str) -> bool {
    let b = s.as_bytes();
    (0..b.len()).any(|i| b.len() >= i + 6 && b[i] == b'_' && b[i + 1] == b'x' && b[i + 2..i + 6].iter().all(|c| c.is_ascii_hexdigit()))
}

fn has_control(s: &str) -> bool {
    s.chars().any(|c| (c as u32) < 0x20)
}

/// Features of a text that matter to an XML writer / reader.
fn text_class(s: &str) -> String {
    let mut f: Vec<&str> = vec![];
    if has_x_escape_lookalike(s) {
        f.push("x-escape-lookalike");
    }
    if s.contains('\t') {
        f.push("tab");
    }
    if s.contains('\n') || s.contains('\r') {
        f.push("newline");
    }
    if s.chars().any(|c| (c as u32) < 0x20 && !matches!(c, '\t' | '\n' | '\r')) {
        f.push("control-char");
    }
    if s.chars().any(|c| c == '\u{fffe}' || c == '\u{ffff}') {
        f.push("noncharacter");
    }
    if s.chars().any(|c| matches!(c, '<' | '>' | '&' | '"' | '\'')) {
        f.push("xml-special");
    }
    if s.starts_with(' ') || s.ends_with(' ') {
        f.push("edge-space");
    }
    if f.is_empty() {
        f.push("plain");
    }
    f.join("+")
}

fn val_class(v: &Value) -> String {
    match v {
        Value::Null => "none".into(),
        Value::Bool(b) => b.to_string(),
        Value::Number(_) => "num".into(),
        Value::String(s) => {
            let b = s.as_bytes();
            if b.len() == 7 && b[0] == b'#' && b[1..].iter().all(|c| c.is_ascii_hexdigit()) {
                "rgb".into()
            } else if !s.is_empty() && s.len() <= 24 && s.chars().all(|c| c.is_ascii_alphanumeric()) && !s.chars().all(|c| c.is_ascii_digit()) {
                // enumerated values (border styles, alignments, rule types, operators)
                s.clone()
            } else {
                format!("text({})", text_class(s))
            }
        }
        Value::Array(_) => "array".into(),
        Value::Object(_) => "object".into(),
    }
}

/// First difference of two JSON values: (path with array indices erased, class of a, class of b).
fn json_first_diff(a: &Value, b: &Value, path: &str) -> Option<(String, String, String)> {
    if a == b {
        return None;
    }
    match (a, b) {
        (Value::Object(x), Value::Object(y)) => {
            let mut keys: Vec<&String> = x.keys().chain(y.keys()).collect();
            keys.sort();
            keys.dedup();
            // the discriminant first: a different rule type explains every other difference
            if let (Some(tx), Some(ty)) = (x.get("type"), y.get("type")) {
                if tx != ty {
                    return Some((format!("{path}.type"), val_class(tx), val_class(ty)));
                }
            }
            for k in keys {
                let (vx, vy) = (x.get(k).unwrap_or(&Value::Null), y.get(k).unwrap_or(&Value::Null));
                if let Some(d) = json_first_diff(vx, vy, &format!("{path}.{k}")) {
                    return Some(d);
                }
            }
            None
        }
        (Value::Array(x), Value::Array(y)) => {
            if x.len() != y.len() {
                return Some((format!("{path}[]"), format!("len{}", x.len()), format!("len{}", y.len())));
            }
            for (vx, vy) in x.iter().zip(y.iter()) {
                if let Some(d) = json_first_diff(vx, vy, &format!("{path}[]")) {
                    return Some(d);
                }
            }
            None
        }
        (Value::Number(x), Value::Number(y)) => Some((
            path.to_string(),
            format!("num({})", x),
            format!("num({})", y),
        )),
        _ => Some((path.to_string(), val_class(a), val_class(b))),
    }
}

fn parse_json(s: &str) -> Value {
    serde_json::from_str(s).unwrap_or(Value::String(s.to_string()))
}

/// `range=.. rule={..} dxf={..}` -> (range, rule, dxf)
fn split_cf(s: &str) -> (String, Value, Value) {
    let (range, rest) = match s.strip_prefix("range=").and_then(|r| r.split_once(" rule=")) {
        Some(x) => x,
        None => return (String::new(), Value::Null, Value::Null),
    };
    let (rule, dxf) = rest.rsplit_once(" dxf=").unwrap_or((rest, "null"));
    (range.to_string(), parse_json(rule), parse_json(dxf))
}

fn formula_features(f: &str) -> String {
    let mut v: Vec<&str> = vec![];
    // string literals
    let mut lits = String::new();
    let mut inside = false;
    for c in f.chars() {
        if c == '"' {
            inside = !inside;
        } else if inside {
            lits.push(c);
        }
    }
    let tc = text_class(&lits);
    let with_lits = tc != "plain";
    if f.contains('@') {
        v.push("@");
    }
    if f.contains('#') && !f.contains("#N") && !f.contains("#R") && !f.contains("#V") && !f.contains("#D") {
        v.push("#");
    }
    if f.contains('{') {
        v.push("array-literal");
    }
    if f.contains('\'') {
        v.push("quoted-sheet");
    }
    if f.to_uppercase().contains("LAMBDA") {
        v.push("LAMBDA");
    }
    if f.to_uppercase().contains("LET(") {
        v.push("LET");
    }
    let mut s = v.join("+");
    if with_lits {
        s.push_str(&format!("+string-literal({tc})"));
    }
    if s.is_empty() {
        s = "plain".into();
    }
    s
}

/// Root cause of one differing entry, from the entry itself and the original model.
fn cause(e: &DiffEntry, before: &Snapshot, model: &Model) -> String {
    let aspect = snapshot::aspect(&e.key);
    let a = e.a.as_deref().unwrap_or("");
    let b = e.b.as_deref().unwrap_or("");
    let presence = match (&e.a, &e.b) {
        (Some(_), None) => "lost",
        (None, Some(_)) => "appeared",
        _ => "changed",
    };
    // key -> (sheet, row, col)
    let nums: Vec<i32> = e
        .key
        .split(|c: char| !c.is_ascii_digit())
        .filter(|p| !p.is_empty())
        .filter_map(|p| p.parse().ok())
        .collect();
    match aspect.as_str() {
        a_ if a_.starts_with("sheet.row") => {
            let (sheet, row) = (nums.first().copied().unwrap_or(0), nums.get(1).copied().unwrap_or(0));
            let has_cells = model
                .workbook
                .worksheets
                .get(sheet as usize)
                .map(|ws| ws.sheet_data.get(&row).map(|r| !r.is_empty()).unwrap_or(false))
                .unwrap_or(false);
            format!("{presence}:{}", if has_cells { "row-with-cells" } else { "row-without-cells" })
        }
        "sheet.color" => {
            if b == "None" {
                "lost".into()
            } else {
                format!("{presence}:{}->{}", a.split('(').next().unwrap_or(""), b.split('(').next().unwrap_or(""))
            }
        }
        "sheet.cf" => {
            if e.a.is_none() || e.b.is_none() {
                let (_, rule, _) = split_cf(if e.a.is_some() { a } else { b });
                return format!("{presence}:type={}", rule.get("type").map(val_class).unwrap_or_default());
            }
            let (ra, rla, da) = split_cf(a);
            let (rb, rlb, db) = split_cf(b);
            let ty = rla.get("type").map(val_class).unwrap_or_default();
            if let Some((p, x, y)) = json_first_diff(&rla, &rlb, "rule") {
                return format!("type={ty}:{p}:{x}->{y}");
            }
            if let Some((p, x, y)) = json_first_diff(&da, &db, "dxf") {
                return format!("{p}:{x}->{y}");
            }
            if ra != rb {
                return format!("range:{}->{}", text_class(&ra), text_class(&rb));
            }
            "changed".into()
        }
        "sheet.link" | "sheet.cell.style.border" | "sheet.cell.style.font" | "sheet.cell.style.fill" | "sheet.cell.style.alignment" | "sheet.row.style" => {
            if e.a.is_none() || e.b.is_none() {
                if aspect == "sheet.link" {
                    let v = parse_json(if e.a.is_some() { a } else { b });
                    let loc = v.get("location").or(v.get("target")).and_then(|l| l.as_str()).unwrap_or("");
                    return format!("{presence}:{}", if loc.is_empty() { "empty-location".to_string() } else { text_class(loc) });
                }
                return presence.to_string();
            }
            match json_first_diff(&parse_json(a), &parse_json(b), "") {
                Some((p, x, y)) => format!("{p}:{x}->{y}"),
                None => "changed".into(),
            }
        }
        "sheet.cell.style.num_fmt" => format!("{presence}:{}", text_class(a)),
        "sheet.cell.content" => {
            if a.starts_with('=') && b.starts_with('=') {
                let is_array = before.contains_key(&e.key.replace(".content", ".array"));
                let kind = if is_array { "array-formula" } else { "plain-formula" };
                let strip = |x: &str| x.replace('@', "");
                let was_error = before.get(&e.key.replace(".content", ".value")).map(|v| v == "e:#ERROR!").unwrap_or(false);
                if strip(a) == strip(b) {
                    let (na, nb) = (a.matches('@').count(), b.matches('@').count());
                    format!("{kind}:{}", if nb > na { "implicit-intersection-added" } else { "explicit-@-dropped" })
                } else if was_error {
                    format!("{kind}:text-of-unparsable-formula-reinterpreted")
                } else {
                    format!("{kind}:{}", formula_features(a))
                }
            } else if a.starts_with('=') {
                format!("{presence}:formula:{}", formula_features(a))
            } else if escape_collision(a) {
                format!("{presence}:escape-collision")
            } else {
                format!("{presence}:{}", text_class(if e.a.is_some() { a } else { b }))
            }
        }
        "sheet.cell.value" | "sheet.cell.array" => {
            // attribute to the cell's content
            let content = before.get(&e.key.replace(".value", ".content").replace(".array", ".content")).cloned().unwrap_or_default();
            let kind = |s: &str| s.split(':').next().unwrap_or("").to_string();
            let what = if content.starts_with('=') {
                format!("formula:{}", formula_features(&content))
            } else if content.is_empty() {
                "spill-or-empty".to_string()
            } else {
                format!("constant:{}", text_class(&content))
            };
            if aspect == "sheet.cell.array" {
                format!("{presence}:{what}")
            } else {
                format!("{}->{}:{what}", kind(a), kind(b))
            }
        }
        "sheet.name" | "defined_name" => format!("{presence}:{}", text_class(if e.a.is_some() { a } else { b })),
        _ => presence.to_string(),
    }
}

fn classify(d: &[DiffEntry], before: &Snapshot, model: &Model) -> (String, String) {
    let mut best: Option<(&DiffEntry, u32)> = None;
    for e in d {
        let r = aspect_rank(&snapshot::aspect(&e.key));
        if best.map(|(_, br)| r < br).unwrap_or(true) {
            best = Some((e, r));
        }
    }
    let (e, _) = best.expect("non-empty diff");
    let aspect = snapshot::aspect(&e.key);
    let sig = format!("C24:{}:{}", aspect, cause(e, before, model));
    let detail = format!(
        "workbook after export -> import -> evaluate differs from the original ({} differing entries, aspects {}):\n{}",
        d.len(),
        snapshot::aspects(d).join(","),
        snapshot::describe(d, "original", "after xlsx", 10)
    );
    (sig, detail)
}

// ------------------------------------------------------------------------------------------------
// The check

fn nontrivial(model: &Model, snap: &Snapshot) -> bool {
    let sheets = model.workbook.worksheets.len() >= 2;
    let formula = snap.iter().any(|(k, v)| k.ends_with(".content") && v.starts_with('='));
    // a cell style attribute, a row style, or a column style run other than "none"
    let style = snap.iter().any(|(k, v)| {
        k.contains(".style.") || (k.contains(".row(") && k.ends_with(".style")) || (k.ends_with(".cols.style") && v.matches("\"none\"").count() != v.matches("(").count())
    });
    let mut escaping = model.workbook.worksheets.iter().any(|ws| needs_xml_care(&ws.name)) || model.workbook.shared_strings.iter().any(|s| needs_xml_care(s));
    if !escaping {
        escaping = snap
            .iter()
            .any(|(k, v)| (k.ends_with(".content") || k.contains(".link(") || k.starts_with("defined_name")) && needs_xml_care(v));
    }
    sheets && formula && style && escaping
}

/// What the workbook contains (generator distribution, evidence file).
fn content_labels(model: &Model, snap: &Snapshot) -> Vec<String> {
    let mut l: Vec<String> = vec![];
    let has = |f: &dyn Fn(&String, &String) -> bool| snap.iter().any(|(k, v)| f(k, v));
    let mut push = |name: &str, b: bool| {
        if b {
            l.push(format!("has:{name}"));
        }
    };
    push("formula", has(&|k, v| k.ends_with(".content") && v.starts_with('=')));
    push("dynamic-array", has(&|k, v| k.ends_with(".array") && v.starts_with("DynamicAnchor")));
    push("cse-array", has(&|k, v| k.ends_with(".array") && v.starts_with("CseAnchor")));
    push("error-value", has(&|k, v| k.ends_with(".value") && v.starts_with("e:")));
    push("boolean-value", has(&|k, v| k.ends_with(".value") && v.starts_with("b:")));
    push("text-needing-escape", model.workbook.shared_strings.iter().any(|s| needs_xml_care(s)));
    push("control-char-text", model.workbook.shared_strings.iter().any(|s| has_control(s)));
    push("x-escape-lookalike-text", model.workbook.shared_strings.iter().any(|s| has_x_escape_lookalike(s)));
    push("quote-prefix", has(&|k, _| k.ends_with(".style.quote_prefix")));
    push("num_fmt", has(&|k, _| k.ends_with(".style.num_fmt")));
    push("font", has(&|k, _| k.ends_with(".style.font")));
    push("fill", has(&|k, _| k.ends_with(".style.fill")));
    push("theme-colour-with-tint", has(&|k, v| k.contains(".style") && v.contains("[") && v.contains(",0.") || v.contains(",-0.")));
    push("border", has(&|k, _| k.ends_with(".style.border")));
    push("alignment", has(&|k, _| k.ends_with(".style.alignment")));
    push("row-style", has(&|k, _| k.contains(".row(") && k.ends_with(".style")));
    push("column-style", has(&|k, v| k.ends_with(".cols.style") && v.contains("font")));
    push("row-height", has(&|k, _| k.ends_with(".height")));
    push("hidden-row", has(&|k, _| k.contains(".row(") && k.ends_with(".hidden")));
    push("column-width", has(&|k, v| k.ends_with(".cols.width") && v.matches('(').count() > 1));
    push("hidden-column", has(&|k, v| k.ends_with(".cols.hidden") && v.contains("true")));
    push("hidden-sheet", has(&|k, v| k.ends_with(".state") && v != "visible"));
    push("awkward-sheet-name", model.workbook.worksheets.iter().any(|ws| needs_xml_care(&ws.name) || ws.name.contains(' ')));
    push("frozen-pane", has(&|k, v| (k.ends_with(".frozen_rows") || k.ends_with(".frozen_columns")) && v != "0"));
    push("grid-lines-off", has(&|k, v| k.ends_with(".grid_lines") && v == "false"));
    push("defined-name", has(&|k, _| k.starts_with("defined_name[") && k.ends_with("|None]")));
    push("sheet-scoped-name", has(&|k, _| k.starts_with("defined_name[") && !k.ends_with("|None]")));
    push("link", has(&|k, _| k.contains(".link(")));
    push("moved-or-deleted-sheets", model.workbook.worksheets.iter().enumerate().any(|(i, ws)| ws.sheet_id != i as u32 + 1));
    for (k, v) in snap {
        if k.contains(".cf[") {
            if let Some(t) = v.split("\"type\":\"").nth(1).and_then(|r| r.split('"').next()) {
                let name = format!("has:cf:{t}");
                if !l.contains(&name) {
                    l.push(name);
                }
            }
        }
    }
    l
}

pub fn check_with(case: &Case, avoid: &Avoid) -> Outcome {
    let mut o = Outcome::pass();
    o.excluded += case.steered;
    let tb = std::time::Instant::now();
    let mut b = build(case, avoid);
    if std::env::var("VERIF_C24_TIMES").is_ok() {
        eprintln!("build {:?} ({} ops)", tb.elapsed(), case.ops.len());
    }
    if tb.elapsed().as_millis() > 2000 && std::env::var("VERIF_C24_SLOW").is_ok() {
        eprintln!("SLOWBUILD {:?}: {}", tb.elapsed(), serde_json::to_string(case).unwrap_or_default());
    }
    o.excluded += b.excluded;
    for l in b.labels.drain(..) {
        o = o.label(l);
    }
    if let Some(a) = &b.aborted {
        if std::env::var("VERIF_C24_PANICS").is_ok() {
            eprintln!("ABORTED {a}: {}", serde_json::to_string(case).unwrap_or_default());
        }
        return o.label(a.clone());
    }
    // callers evaluate before saving (the exporter panics on unevaluated formulas by design)
    if let Err(p) = panics::catch(|| b.um.evaluate()) {
        return o.label(format!("evaluate-panicked:{}", p.class()));
    }
    let model = b.um.get_model();
    let timing = std::env::var("VERIF_C24_TIMES").is_ok();
    let t0 = std::time::Instant::now();
    let before = observe(model);
    if timing {
        eprintln!("observe {:?}", t0.elapsed());
    }

    // precondition: the original is structurally well formed (C27's invariants; e.g. spill cells
    // whose anchor is no longer an array formula are a listed C27 finding, not an xlsx matter)
    if let Some((class, _)) = super::c27::check_workbook(model) {
        if !(class == "defined-name-scope-dangling") {
            o.excluded += 1;
            return o.label(format!("skipped:structure-invariant:{class}"));
        }
    }
    // every cell of an array formula's range must be that formula's spill cell (column deletion
    // through a CSE array leaves an anchor whose range holds foreign or no cells: a C27 matter)
    for ws in &model.workbook.worksheets {
        for (&row, rd) in &ws.sheet_data {
            for (&col, cell) in rd {
                if let Cell::ArrayFormula { r, .. } = cell {
                    for rr in row..row + r.1.max(1) {
                        for cc in col..col + r.0.max(1) {
                            if rr == row && cc == col {
                                continue;
                            }
                            let own = matches!(ws.sheet_data.get(&rr).and_then(|d| d.get(&cc)), Some(Cell::SpillCell { a, .. }) if *a == (row, col));
                            if !own {
                                o.excluded += 1;
                                return o.label("skipped:array-range-not-covered-by-own-spill-cells");
                            }
                        }
                    }
                }
            }
        }
    }
    // a row / column descriptor or a link outside the grid (insert_rows shifts the descriptor of the
    // last row to 1048577; undo of a column deletion leaves links at column 16385) is not a workbook
    // the file format can describe; not an xlsx matter
    for ws in &model.workbook.worksheets {
        if ws.rows.iter().any(|r| !(1..=LAST_ROW).contains(&r.r))
            || ws.cols.iter().any(|c| c.min < 1 || c.max > LAST_COLUMN || c.min > c.max)
            || ws.links.keys().any(|(r, c)| !(1..=LAST_ROW).contains(r) || !(1..=LAST_COLUMN).contains(c))
        {
            o.excluded += 1;
            return o.label("skipped:row-column-or-link-outside-grid");
        }
    }
    // an identifier that reads as a cell reference (nm1 = column NM, row 1) cannot be written in
    // A1 notation as a name; the engine only has such names after re-parsing stored formula texts
    // in R1C1 mode (listed under C01), never from typed input
    {
        use ironcalc_base::expressions::parser::Node;
        let mut cell_like = false;
        for sheet in &model.parsed_formulas {
            for (node, _) in sheet {
                crate::engine::nodes::walk(node, &mut |n| {
                    let name = match n {
                        Node::NamedVariableKind { name, .. } | Node::NamedFunctionKind { name, .. } => Some(name.as_str()),
                        Node::DefinedNameKind(d) => Some(d.0.as_str()),
                        _ => None,
                    };
                    if let Some(name) = name {
                        if ironcalc_base::expressions::utils::parse_reference_a1(&name.to_uppercase()).is_some() {
                            cell_like = true;
                        }
                    }
                });
            }
        }
        if cell_like {
            o.excluded += 1;
            return o.label("skipped:name-that-reads-as-cell-reference");
        }
    }
    // precondition: the computed values of the original are a function of its content, i.e. the
    // engine's own save/load + evaluate reproduces them (otherwise C26 / C01 findings apply and
    // "the same computed values" has no meaning)
    let bytes = model.to_bytes();
    let lang = ops::leak(&case.language);
    match panics::catch(|| {
        Model::from_bytes(&bytes, lang).map(|mut m| {
            m.evaluate();
            observe(&m)
        })
    }) {
        Ok(Ok(reloaded)) => {
            if reloaded != before {
                o.excluded += 1;
                let d = snapshot::diff(&before, &reloaded);
                return o.label(format!("skipped:not-stable-under-internal-reload:{}", snapshot::aspects(&d).join(",")));
            }
        }
        _ => {
            o.excluded += 1;
            return o.label("skipped:internal-reload-fails");
        }
    }

    if timing {
        eprintln!("reload done {:?}", t0.elapsed());
    }
    let loaded = match xlsx_round_trip(model, &case.language) {
        Trip::Fail(sig, detail) => return o.fail(sig, detail),
        Trip::Ok(m) => m,
    };
    if timing {
        eprintln!("xlsx done {:?}", t0.elapsed());
    }
    let after = observe(&loaded);
    if timing {
        eprintln!("observe2 done {:?}", t0.elapsed());
    }
    if nontrivial(model, &before) {
        o = o.nontrivial(serde_json::to_string(&b.effective).unwrap_or_default());
    }
    o = o.label(format!("sheets:{}", model.workbook.worksheets.len().min(5)));
    for l in content_labels(model, &before) {
        o = o.label(l);
    }
    if let Ok(pat) = std::env::var("VERIF_C24_DUMP") {
        for (k, v) in &before {
            if k.contains(&pat) {
                eprintln!("BEFORE {k} = {v}    AFTER {:?}", after.get(k));
            }
        }
        for ws in &model.workbook.worksheets {
            for (r, rd) in &ws.sheet_data {
                for (c, cell) in rd {
                    eprintln!("ORIG CELL ({r},{c}) {cell:?}");
                }
            }
        }
        for ws in &loaded.workbook.worksheets {
            for (r, rd) in &ws.sheet_data {
                for (c, cell) in rd {
                    eprintln!("XLSX CELL ({r},{c}) {cell:?}");
                }
            }
        }
    }
    if before != after {
        let d = snapshot::diff(&before, &after);
        let (sig, detail) = classify(&d, &before, model);
        return o.fail(sig, detail);
    }
    o
}

// ------------------------------------------------------------------------------------------------
// Generators

const SHEET_NAMES: &[&str] = &[
    "My Sheet", "It's", "Data", "A&B", "<x>", "\"q\"", "Über-Blatt", "日本", "a_x0041_b", "A!B", " lead", "trail ", "Sheet.1", "1st", "TRUE", "😀",
    "a\tb", "A1", "RC", "x'y'z", "100%", "a,b;c", "=eq", "Sheet2", "Ghost",
];

const TEXTS: &[&str] = &[
    "a<b>c&d\"e'f",
    "&amp;",
    "<![CDATA[x]]>",
    "]]>",
    "&#10;",
    "\u{1}",
    "a\u{8}b",
    "\u{b}",
    "\u{1f}x",
    "nul\u{0}l",
    "tab\there",
    "cr\rlf",
    "crlf\r\nx",
    "line1\nline2",
    "_x0041_",
    "_x005F_",
    "_x000A_",
    "a_x1F60_b",
    "_xZZZZ_",
    "_x41_",
    "x_x0041",
    "_x005F_x0041_",
    " lead",
    "trail ",
    "  ",
    " ",
    "ñandú €",
    "日本語",
    "😀 emoji",
    "\u{feff}bom",
    "non\u{fffe}char",
    "non\u{ffff}char",
    "del\u{7f}",
    "nel\u{85}",
    "ls\u{2028}ps\u{2029}",
    "e\u{301}",
    "שלום",
    "'123",
    "'=1+1",
    "'TRUE",
    "''",
    "'",
    "\"quoted\"",
    "a,b;c",
    "TRUE ",
    "#N/A x",
    "Hello World",
    "x",
];

const VALUES: &[&str] = &[
    "0", "-0", "1", "-1.5", "0.1", "1e3", "123456789012345678", "0.1234567890123456789", "1e300", "1e-300", "4.9e-324",
    "1.7976931348623157e308", "10%", "$5.50", "1,234.5", "2024-03-01", "12:30", "TRUE", "false", "#N/A", "#DIV/0!", "#REF!",
    "#VALUE!", "#NAME?", "#NUM!", "#NULL!", "#SPILL!", "#CALC!", "#CIRC!", "#ERROR!", "#N/IMPL!", "3.14159", "42", "1000000",
    "0.5", "-273.15", "1/2", "1,5", "1.234,5",
];

const NUM_FMTS: &[&str] = &[
    "general",
    "0.00",
    "#,##0",
    "0%",
    "0.00%",
    "yyyy-mm-dd",
    "dd/mm/yyyy hh:mm",
    "$#,##0.00",
    "0.00E+00",
    "[Red]0.0;[Blue]-0.0",
    "\"€\" #,##0.00",
    "0.0 \"a<b&c\"",
    "@",
    "#,##0.00_);(#,##0.00)",
    "0_x0000_)",
    "h:mm AM/PM",
    "# ?/?",
    "0.0 'x'",
    "mmm d, yyyy",
];

const COLORS: &[&str] = &[
    "#FF0000", "#00FF00", "#123ABC", "#000000", "#FFFFFF", "#abcdef", "[4, 0.4]", "[0, 0]", "[1, -0.25]", "[9, 0.5999938962981048]",
    "[5, -0.249977111117893]", "[3, 0.1]", "[11, 0]", "",
];

fn pick(list: &'static [&'static str]) -> BoxedStrategy<String> {
    (0..list.len()).prop_map(move |i| list[i].to_string()).boxed()
}

fn color_str() -> BoxedStrategy<String> {
    pick(COLORS)
}

fn color() -> BoxedStrategy<Color> {
    color_str().prop_map(|c| Color::from_param(&c).unwrap_or_default()).boxed()
}

fn some_color() -> BoxedStrategy<Color> {
    color().prop_map(|c| if c.is_none() { Color::Rgb("#0A0B0C".into()) } else { c }).boxed()
}

fn rich_text() -> BoxedStrategy<String> {
    prop_oneof![
        8 => pick(TEXTS),
        2 => (pick(TEXTS), pick(TEXTS)).prop_map(|(a, b)| format!("{a}{b}")),
        2 => prop::collection::vec(any::<char>(), 0..6).prop_map(|v| v.into_iter().collect::<String>()),
        1 => "[ -~]{0,8}".prop_map(|s| s),
        1 => prop::collection::vec(prop_oneof![Just('_'), Just('x'), Just('0'), Just('F'), Just('5'), Just('A'), Just('&'), Just('<'), Just(';')], 0..12)
            .prop_map(|v| v.into_iter().collect::<String>()),
    ]
    .boxed()
}

/// Text typed into a cell as text: random strings that the engine would read as a formula are
/// not formulas anybody wrote; formulas come from the formula generator.
fn cell_text() -> BoxedStrategy<String> {
    rich_text().prop_map(|t| if t.starts_with(['=', '+', '-', '@']) { format!("x{t}") } else { t }).boxed()
}

fn sheet() -> BoxedStrategy<u8> {
    prop_oneof![4 => Just(0u8), 3 => Just(1u8), 1 => Just(2u8), 1 => Just(3u8)].boxed()
}

fn row() -> BoxedStrategy<i32> {
    prop_oneof![200 => 1..=10i32, 1 => Just(LAST_ROW), 1 => Just(LAST_ROW - 1)].boxed()
}

fn col() -> BoxedStrategy<i32> {
    prop_oneof![200 => 1..=8i32, 1 => Just(LAST_COLUMN), 1 => Just(LAST_COLUMN - 1)].boxed()
}

fn area() -> BoxedStrategy<A> {
    prop_oneof![
        20 => (sheet(), 1..=10i32, 1..=8i32, 1..4i32, 1..4i32).prop_map(|(s, row, col, w, h)| A { s, row, col, w, h }),
        1 => (sheet(), 1..=10i32, 1..3i32).prop_map(|(s, row, h)| A { s, row, col: 1, w: LAST_COLUMN, h }),
        1 => (sheet(), 1..=8i32, 1..3i32).prop_map(|(s, col, w)| A { s, row: 1, col, w, h: LAST_ROW }),
    ]
    .boxed()
}

fn formula_profile() -> fg::Profile {
    let mut p = fg::Profile::all();
    p.names = ["x", "y", "nam_1", "Rate", "MyName"].iter().map(|s| s.to_string()).collect();
    // cost guard: a range reaching the grid edge makes dynamic arrays of 10^10 cells
    p.edge_refs = false;
    p.sheets = ["Sheet1", "Sheet2", "My Sheet", "It's", "Ghost", "A&B", "<x>", "日本"].iter().map(|s| s.to_string()).collect();
    p
}

/// Formula text in the case's language / locale, steered away from listed C09 findings.
fn formula_text(steer: &Arc<Steer>, language: String, locale: String, depth: u32) -> BoxedStrategy<(String, u64)> {
    let p = formula_profile();
    let spills = prop_oneof![
        Just(FTree::func("SEQUENCE", vec![FTree::num(2), FTree::num(3)])),
        Just(FTree::Array(vec![vec![FTree::num(1), FTree::Str("a<b".into())], vec![FTree::Bool(true), FTree::Err(fg::ErrLit::Na)]])),
        Just(FTree::bin(
            fg::BinOp::Mul,
            FTree::Range {
                sheet: None,
                a: fg::CellRef { col: 1, row: 1, abs_col: false, abs_row: false },
                b: fg::CellRef { col: 2, row: 2, abs_col: false, abs_row: false }
            },
            FTree::num(2)
        )),
        Just(FTree::func("SORT", vec![FTree::Range {
            sheet: None,
            a: fg::CellRef { col: 1, row: 1, abs_col: true, abs_row: true },
            b: fg::CellRef { col: 1, row: 3, abs_col: true, abs_row: true }
        }])),
        Just(FTree::Spill(Box::new(FTree::cell(1, 1)))),
        Just(FTree::bin(fg::BinOp::Concat, FTree::Str("<&>".into()), FTree::func("SEQUENCE", vec![FTree::num(2)]))),
    ];
    let tree = prop_oneof![8 => fg::source_strategy(&p, depth, 3, 75), 2 => spills];
    let steer = steer.clone();
    tree.prop_map(move |t| {
        let (t, n) = steer.apply(&t);
        (format!("={}", fg::print_in(&t, &language, &locale)), n)
    })
    .boxed()
}

fn h_align() -> BoxedStrategy<HorizontalAlignment> {
    prop_oneof![
        Just(HorizontalAlignment::Center),
        Just(HorizontalAlignment::CenterContinuous),
        Just(HorizontalAlignment::Distributed),
        Just(HorizontalAlignment::Fill),
        Just(HorizontalAlignment::General),
        Just(HorizontalAlignment::Justify),
        Just(HorizontalAlignment::Left),
        Just(HorizontalAlignment::Right),
    ]
    .boxed()
}

fn v_align() -> BoxedStrategy<VerticalAlignment> {
    prop_oneof![
        Just(VerticalAlignment::Bottom),
        Just(VerticalAlignment::Center),
        Just(VerticalAlignment::Distributed),
        Just(VerticalAlignment::Justify),
        Just(VerticalAlignment::Top),
    ]
    .boxed()
}

fn alignment() -> BoxedStrategy<Option<Alignment>> {
    prop_oneof![
        2 => Just(None),
        3 => (h_align(), v_align(), any::<bool>()).prop_map(|(horizontal, vertical, wrap_text)| Some(Alignment { horizontal, vertical, wrap_text })),
    ]
    .boxed()
}

fn border_style() -> BoxedStrategy<BorderStyle> {
    prop_oneof![
        Just(BorderStyle::Thin),
        Just(BorderStyle::Medium),
        Just(BorderStyle::Thick),
        Just(BorderStyle::Double),
        Just(BorderStyle::Dotted),
        Just(BorderStyle::SlantDashDot),
        Just(BorderStyle::MediumDashed),
        Just(BorderStyle::MediumDashDotDot),
        Just(BorderStyle::MediumDashDot),
    ]
    .boxed()
}

fn border_item() -> BoxedStrategy<Option<BorderItem>> {
    prop_oneof![
        3 => Just(None),
        2 => (border_style(), color()).prop_map(|(style, color)| Some(BorderItem { style, color })),
    ]
    .boxed()
}

fn border() -> BoxedStrategy<Border> {
    (border_item(), border_item(), border_item(), border_item(), border_item(), prop::bool::weighted(0.15), prop::bool::weighted(0.15))
        .prop_map(|(left, right, top, bottom, diagonal, diagonal_up, diagonal_down)| Border {
            diagonal_up,
            diagonal_down,
            left,
            right,
            top,
            bottom,
            diagonal,
        })
        .boxed()
}

fn font() -> BoxedStrategy<Font> {
    (
        any::<bool>(),
        any::<bool>(),
        any::<bool>(),
        any::<bool>(),
        prop_oneof![Just(12), Just(8), Just(11), Just(36), Just(1)],
        color(),
        prop_oneof![4 => Just("Inter"), 1 => Just("Arial"), 1 => Just("Courier New"), 1 => Just("A&B <font>"), 1 => Just("日本 Gothic"), 1 => Just("f_x0041_")],
        prop_oneof![Just(2), Just(1), Just(3)],
        prop_oneof![3 => Just(FontScheme::Minor), 1 => Just(FontScheme::Major), 1 => Just(FontScheme::None)],
    )
        .prop_map(|(strike, u, b, i, sz, color, name, family, scheme)| Font { strike, u, b, i, sz, color, name: name.to_string(), family, scheme })
        .boxed()
}

fn full_style() -> BoxedStrategy<Style> {
    (alignment(), pick(NUM_FMTS), color(), font(), border(), prop::bool::weighted(0.2))
        .prop_map(|(alignment, num_fmt, fill, font, border, quote_prefix)| Style { alignment, num_fmt, fill: Fill { color: fill }, font, border, quote_prefix })
        .boxed()
}

fn style_edit() -> BoxedStrategy<(String, String)> {
    prop_oneof![
        2 => prop_oneof![Just("font.b"), Just("font.i"), Just("font.u"), Just("font.strike")]
            .prop_flat_map(|p| any::<bool>().prop_map(move |b| (p.to_string(), b.to_string()))),
        1 => color_str().prop_map(|c| ("font.color".to_string(), c)),
        1 => (1..40i32).prop_map(|n| ("font.size".to_string(), n.to_string())),
        2 => color_str().prop_map(|c| ("fill.color".to_string(), c)),
        3 => pick(NUM_FMTS).prop_map(|f| ("num_fmt".to_string(), f)),
        1 => Just(("alignment".to_string(), String::new())),
        1 => h_align().prop_map(|h| ("alignment.horizontal".to_string(), format!("{h}"))),
        1 => v_align().prop_map(|v| ("alignment.vertical".to_string(), format!("{v}"))),
        1 => any::<bool>().prop_map(|b| ("alignment.wrap_text".to_string(), b.to_string())),
    ]
    .boxed()
}

fn dxf() -> BoxedStrategy<Dxf> {
    let font = prop_oneof![
        1 => Just(None),
        3 => (
            prop::option::of(Just(true)),
            prop::option::of(Just(true)),
            prop::option::of(Just(true)),
            prop::option::of(Just(true)),
            prop::option::of(prop_oneof![Just(9), Just(14)]),
            color()
        )
            .prop_map(|(b, i, u, strike, sz, color)| Some(DxfFont { b, i, u, strike, sz, color })),
    ];
    let fill = prop_oneof![1 => Just(None), 3 => some_color().prop_map(|c| Some(Fill { color: c }))];
    let border = prop_oneof![3 => Just(None), 1 => border().prop_map(|mut b| {
        b.diagonal_up = false;
        b.diagonal_down = false;
        Some(b)
    })];
    let num_fmt = prop_oneof![3 => Just(None), 1 => pick(NUM_FMTS).prop_map(|f| Some(NumFmt { num_fmt_id: 164, format_code: f }))];
    let alignment = prop_oneof![4 => Just(None), 1 => alignment()];
    (font, fill, border, num_fmt, alignment)
        .prop_map(|(font, fill, border, num_fmt, alignment)| Dxf { font, fill, border, num_fmt, alignment })
        .boxed()
}

fn cfvo() -> BoxedStrategy<Cfvo> {
    prop_oneof![
        Just(Cfvo::Min),
        Just(Cfvo::Max),
        prop_oneof![Just(0.0), Just(5.0), Just(-2.5), Just(0.1), Just(1e10)].prop_map(Cfvo::Number),
        prop_oneof![Just(10.0), Just(50.0), Just(33.3)].prop_map(Cfvo::Percent),
        prop_oneof![Just(25.0), Just(90.0)].prop_map(Cfvo::Percentile),
        prop_oneof![Just("$A$1"), Just("$A$1+1"), Just("IF($A$1>1,2,3)"), Just("LEN(\"<&>\")")].prop_map(|f| Cfvo::Formula(f.to_string())),
    ]
    .boxed()
}

const ICON_SETS: &[&str] = &[
    "3Arrows", "3ArrowsGray", "4Arrows", "4ArrowsGray", "5Arrows", "5ArrowsGray", "3Triangles", "3TrafficLights1", "4TrafficLights", "3Signs",
    "4RedToBlack", "3Symbols", "3Symbols2", "3Flags",
];

fn icon() -> BoxedStrategy<Icon> {
    prop_oneof![
        Just(Icon::ArrowUp),
        Just(Icon::Circle),
        Just(Icon::Flag),
        Just(Icon::Star),
        Just(Icon::Heart),
        Just(Icon::FlatRectangle),
        Just(Icon::ThumbsUp),
        Just(Icon::Check),
    ]
    .boxed()
}

fn cf_rule() -> BoxedStrategy<CfRuleInput> {
    let vop = prop_oneof![
        Just(ValueOperator::Equal),
        Just(ValueOperator::GreaterThan),
        Just(ValueOperator::GreaterThanOrEqual),
        Just(ValueOperator::LessThan),
        Just(ValueOperator::LessThanOrEqual),
        Just(ValueOperator::NotEqual),
        Just(ValueOperator::Between),
        Just(ValueOperator::NotBetween),
    ];
    let top = prop_oneof![
        Just(TextOperator::Contains),
        Just(TextOperator::DoesNotContain),
        Just(TextOperator::BeginsWith),
        Just(TextOperator::EndsWith),
        Just(TextOperator::Equals),
    ];
    let period = prop_oneof![
        Just(PeriodType::Between),
        Just(PeriodType::NotBetween),
        Just(PeriodType::Yesterday),
        Just(PeriodType::Today),
        Just(PeriodType::Tomorrow),
        Just(PeriodType::Last7Days),
        Just(PeriodType::Next7Days),
        Just(PeriodType::LastWeek),
        Just(PeriodType::ThisWeek),
        Just(PeriodType::NextWeek),
        Just(PeriodType::LastMonth),
        Just(PeriodType::ThisMonth),
        Just(PeriodType::NextMonth),
        Just(PeriodType::LastYear),
        Just(PeriodType::ThisYear),
        Just(PeriodType::NextYear),
    ];
    let cf_formula = prop_oneof![
        Just("$A1>2"),
        Just("=$A1>2"),
        Just("=AND(A1<>\"\",B1<3)"),
        Just("=LEN(A1)>1"),
        Just("=A1=\"a<b&c\""),
        Just("=Sheet2!$A$1>0"),
        Just("=SUM($A$1:$B$2)>nam_1"),
    ];
    let cell_is_formula = prop_oneof![Just("5"), Just("=5"), Just("\"a&b\""), Just("$B$2"), Just("1.5"), Just("=$A$1+1"), Just("-3")];
    let standard_icons = (0..ICON_SETS.len(), prop::collection::vec((cfvo(), any::<bool>()), 5), any::<bool>()).prop_map(|(k, cf, show_value)| {
        let icons = icon_set_icons(ICON_SETS[k]).unwrap_or_default();
        let thresholds = icons
            .into_iter()
            .zip(cf)
            .map(|((icon, color), (cfvo, is_strict))| IconThreshold { icon, cfvo, color, is_strict })
            .collect();
        CfRuleInput::IconSet { thresholds, show_value }
    });
    let custom_icons = (prop::collection::vec((icon(), cfvo(), some_color(), any::<bool>()), 2..=5), any::<bool>()).prop_map(|(v, show_value)| {
        CfRuleInput::IconSet {
            thresholds: v.into_iter().map(|(icon, cfvo, color, is_strict)| IconThreshold { icon, cfvo, color, is_strict }).collect(),
            show_value,
        }
    });
    prop_oneof![
        3 => (vop, cell_is_formula.clone(), cell_is_formula, dxf(), any::<bool>()).prop_map(|(operator, f1, f2, format, stop_if_true)| {
            let two = matches!(operator, ValueOperator::Between | ValueOperator::NotBetween);
            CfRuleInput::CellIs { operator, formula: f1.to_string(), formula2: if two { Some(f2.to_string()) } else { None }, format, stop_if_true }
        }),
        3 => (top, rich_text(), dxf(), any::<bool>()).prop_map(|(operator, value, format, stop_if_true)| CfRuleInput::Text { operator, value, format, stop_if_true }),
        3 => (cf_formula, dxf(), any::<bool>()).prop_map(|(f, format, stop_if_true)| CfRuleInput::Formula { formula: f.to_string(), format, stop_if_true }),
        2 => (period, dxf(), any::<bool>()).prop_map(|(time_period, format, stop_if_true)| {
            let two = matches!(time_period, PeriodType::Between | PeriodType::NotBetween);
            CfRuleInput::TimePeriod {
                time_period,
                date1: if two { Some("2024-01-01".into()) } else { None },
                date2: if two { Some("2024-12-31".into()) } else { None },
                format,
                stop_if_true,
            }
        }),
        1 => (dxf(), any::<bool>()).prop_map(|(format, stop_if_true)| CfRuleInput::DuplicateValues { format, stop_if_true }),
        1 => (dxf(), any::<bool>()).prop_map(|(format, stop_if_true)| CfRuleInput::UniqueValues { format, stop_if_true }),
        1 => (dxf(), any::<bool>()).prop_map(|(format, stop_if_true)| CfRuleInput::Blanks { format, stop_if_true }),
        1 => (dxf(), any::<bool>()).prop_map(|(format, stop_if_true)| CfRuleInput::NotBlanks { format, stop_if_true }),
        1 => (dxf(), any::<bool>()).prop_map(|(format, stop_if_true)| CfRuleInput::Errors { format, stop_if_true }),
        1 => (dxf(), any::<bool>()).prop_map(|(format, stop_if_true)| CfRuleInput::NoErrors { format, stop_if_true }),
        1 => (dxf(), any::<bool>()).prop_map(|(format, stop_if_true)| CfRuleInput::AboveAverage { format, stop_if_true }),
        1 => (dxf(), any::<bool>()).prop_map(|(format, stop_if_true)| CfRuleInput::BelowAverage { format, stop_if_true }),
        1 => (1..20u32, any::<bool>(), dxf(), any::<bool>()).prop_map(|(rank, percent, format, stop_if_true)| CfRuleInput::Top10 { rank, percent, format, stop_if_true }),
        1 => (1..20u32, any::<bool>(), dxf(), any::<bool>()).prop_map(|(rank, percent, format, stop_if_true)| CfRuleInput::Bottom10 { rank, percent, format, stop_if_true }),
        2 => prop::collection::vec((cfvo(), some_color()), 2..=3)
            .prop_map(|v| CfRuleInput::ColorScale { thresholds: v.into_iter().map(|(cfvo, color)| ColorScaleThreshold { cfvo, color }).collect() }),
        2 => (prop::option::of(cfvo()), prop::option::of(cfvo()), some_color(), some_color(), any::<bool>(), any::<bool>()).prop_map(
            |(min, max, positive_color, negative_color, is_gradient, show_value)| CfRuleInput::DataBar { min, max, positive_color, negative_color, is_gradient, show_value }
        ),
        2 => standard_icons,
        1 => custom_icons,
        1 => (icon(), some_color(), prop::collection::vec((cfvo(), any::<bool>()), 2..=4), any::<bool>())
            .prop_map(|(icon, color, thresholds, show_value)| CfRuleInput::IconRating { icon, color, thresholds, show_value }),
    ]
    .boxed()
}

fn cf_range() -> BoxedStrategy<String> {
    prop_oneof![
        6 => ops::cf_range(),
        1 => Just("$A$1:$B$3".to_string()),
        1 => Just("A1:A3 C1:C3".to_string()),
        1 => Just("B2".to_string()),
    ]
    .boxed()
}

fn link() -> BoxedStrategy<Link> {
    let tooltip = prop_oneof![
        4 => Just(None),
        1 => Just(Some("tip".to_string())),
        3 => rich_text().prop_map(Some),
    ];
    let target = prop_oneof![
        Just("https://example.com".to_string()),
        Just("https://example.com/?a=1&b=2".to_string()),
        Just("https://x.y/p#frag".to_string()),
        Just("https://x.y/p#a#b".to_string()),
        Just("https://x.y/p#".to_string()),
        Just("mailto:a@b.c?subject=Hi there".to_string()),
        Just("file:///C:/a b.xlsx#Sheet1!A1".to_string()),
        Just("https://ex.com/\"q\"<>'".to_string()),
        Just("https://ñ.example/😀".to_string()),
        Just("#".to_string()),
        Just("".to_string()),
        rich_text(),
    ];
    let location = prop_oneof![
        Just("Sheet1!A3".to_string()),
        Just("'My Sheet'!B2".to_string()),
        Just("'A&B'!A1".to_string()),
        Just("nam_1".to_string()),
        Just("#REF!".to_string()),
        rich_text(),
    ];
    prop_oneof![
        3 => (target, tooltip.clone()).prop_map(|(target, tooltip)| Link::External { target, tooltip }),
        2 => (location, tooltip).prop_map(|(location, tooltip)| Link::Internal { location, tooltip }),
    ]
    .boxed()
}

const NAMES: &[&str] = &["nam_1", "Rate", "x", "y", "MyName", "_under", "a.b", "x_1", "NAM_1", "tax_x0041_", "ñame"];
const NAME_FORMULAS: &[&str] = &[
    "Sheet1!$A$1",
    "Sheet1!$A$1:$B$3",
    "Sheet2!$C$2",
    "=Sheet2!$C$2",
    "Sheet1!$B$2:$B$3",
    "Sheet2!$A$1:$A$2",
    "'My Sheet'!$B$2",
    "'A&B'!$A$1",
    "'<x>'!$A$1:$A$2",
    "'It''s'!$A$1",
    "=Sheet1!$A$1*2",
    "=SUM(Sheet1!$A$1:$A$3)&\"<&>\"",
    "=42",
    "=\"a<b\"",
];

/// One step of the builder: one or a few ops that belong together.
fn rich_step(steer: &Arc<Steer>, language: &str, locale: &str, depth: u32) -> BoxedStrategy<(Vec<Op>, u64)> {
    let one = |s: BoxedStrategy<Op>| s.prop_map(|o| (vec![o], 0u64)).boxed();
    let text_input = (sheet(), row(), col(), cell_text()).prop_map(|(s, row, col, text)| Op::Input { s, row, col, text }).boxed();
    let value_input = (sheet(), row(), col(), pick(VALUES)).prop_map(|(s, row, col, text)| Op::Input { s, row, col, text }).boxed();
    let formula_input = (sheet(), 1..=10i32, 1..=8i32, formula_text(steer, language.to_string(), locale.to_string(), depth))
        .prop_map(|(s, row, col, (text, n))| (vec![Op::Input { s, row, col, text }], n))
        .boxed();
    let array_input = (sheet(), 1..=10i32, 1..=8i32, 1..3i32, 1..3i32, formula_text(steer, language.to_string(), locale.to_string(), depth.min(3)))
        .prop_map(|(s, row, col, w, h, (text, n))| (vec![Op::ArrayFormula { s, row, col, w, h, text }], n))
        .boxed();
    let update_style = (area(), style_edit()).prop_map(|(a, (path, value))| Op::UpdateStyle { a, path, value }).boxed();
    let border_op = (
        area(),
        prop_oneof![Just("All"), Just("Inner"), Just("Outer"), Just("Top"), Just("Right"), Just("Bottom"), Just("Left"), Just("CenterH"), Just("CenterV"), Just("None")],
        border_style(),
        prop_oneof![Just("#FF0000"), Just("#000000"), Just("#1A2B3C")],
    )
        .prop_map(|(a, kind, style, color)| Op::Border { a, kind: kind.to_string(), style: format!("{style}"), color: color.to_string() })
        .boxed();
    let paste_style = (sheet(), 1..=10i32, 1..=8i32, full_style(), 1..3u8, 1..3u8)
        .prop_map(|(s, row, col, style, w, h)| (vec![Op::SelectSheet(s), Op::SelectCell { row, col }, Op::PasteStyles { style: Box::new(style), w, h }], 0u64))
        .boxed();
    let sizes = prop_oneof![
        (sheet(), 1..=8i32, 0..3i32, prop_oneof![Just(20.0), Just(90.0), Just(133.5), Just(0.0), Just(1.0 / 3.0), Just(1234.5678), Just(90.00000001)])
            .prop_map(|(s, c1, d, width)| Op::ColsWidth { s, c1, c2: c1 + d, width }),
        (sheet(), 1..=12i32, 0..3i32, prop_oneof![Just(10.0), Just(25.0), Just(61.25), Just(0.0), Just(1.0 / 3.0), Just(409.5), Just(24.999999)])
            .prop_map(|(s, r1, d, height)| Op::RowsHeight { s, r1, r2: r1 + d, height }),
        (sheet(), 1..=8i32, 0..3i32, prop::bool::weighted(0.8)).prop_map(|(s, c1, d, hidden)| Op::ColsHidden { s, c1, c2: c1 + d, hidden }),
        (sheet(), 1..=12i32, 0..3i32, prop::bool::weighted(0.8)).prop_map(|(s, r1, d, hidden)| Op::RowsHidden { s, r1, r2: r1 + d, hidden }),
        (sheet(), Just(LAST_COLUMN), Just(55.0)).prop_map(|(s, c, width)| Op::ColsWidth { s, c1: c, c2: c, width }),
        (sheet(), Just(LAST_ROW), Just(55.0)).prop_map(|(s, r, height)| Op::RowsHeight { s, r1: r, r2: r, height }),
    ]
    .boxed();
    let sheets = prop_oneof![
        4 => Just(Op::NewSheet),
        1 => sheet().prop_map(Op::DeleteSheet),
        2 => sheet().prop_map(Op::DuplicateSheet),
        6 => (sheet(), pick(SHEET_NAMES)).prop_map(|(s, n)| Op::RenameSheet(s, n)),
        1 => (sheet(), rich_text()).prop_map(|(s, n)| Op::RenameSheet(s, n)),
        2 => (sheet(), sheet()).prop_map(|(s, t)| Op::MoveSheet(s, t)),
        2 => sheet().prop_map(Op::HideSheet),
        1 => sheet().prop_map(Op::UnhideSheet),
        3 => (sheet(), color_str()).prop_map(|(s, c)| Op::SheetColor(s, c)),
        2 => (sheet(), prop_oneof![0..4i32, Just(100), Just(LAST_ROW - 1)]).prop_map(|(s, n)| Op::FrozenRows(s, n)),
        2 => (sheet(), prop_oneof![0..4i32, Just(100), Just(LAST_COLUMN - 1)]).prop_map(|(s, n)| Op::FrozenCols(s, n)),
        2 => (sheet(), any::<bool>()).prop_map(|(s, b)| Op::GridLines(s, b)),
    ]
    .boxed();
    let scope = || prop_oneof![2 => Just(None), 2 => sheet().prop_map(Some)];
    let names = prop_oneof![
        6 => (pick(NAMES), scope(), pick(NAME_FORMULAS)).prop_map(|(name, scope, formula)| Op::NameNew { name, scope, formula }),
        1 => (pick(NAMES), scope(), pick(NAMES), scope(), pick(NAME_FORMULAS))
            .prop_map(|(name, scope, new_name, new_scope, formula)| Op::NameUpdate { name, scope, new_name, new_scope, formula }),
        1 => (pick(NAMES), scope()).prop_map(|(name, scope)| Op::NameDelete { name, scope }),
    ]
    .boxed();
    let rename_and_name = (sheet(), pick(SHEET_NAMES), pick(NAMES), prop_oneof![Just(None), sheet().prop_map(Some)], any::<bool>(), 1..=10i32, 1..=8i32)
        .prop_map(|(s, n, name, scope, range, row, col)| {
            let q = format!("'{}'", n.replace('\'', "''"));
            let formula = if range { format!("{q}!$A$1:$B$2") } else { format!("{q}!$C$3") };
            (
                vec![
                    Op::RenameSheet(s, n.clone()),
                    Op::NameNew { name, scope, formula },
                    Op::LinkSet { s: 0, row, col, link: Link::Internal { location: format!("{q}!B2"), tooltip: None }, label: None },
                ],
                0u64,
            )
        })
        .boxed();
    let links = prop_oneof![
        6 => (sheet(), 1..=10i32, 1..=8i32, link(), prop_oneof![3 => Just(None), 1 => Just(Some("label".to_string())), 1 => cell_text().prop_map(Some)])
            .prop_map(|(s, row, col, link, label)| Op::LinkSet { s, row, col, link, label }),
        1 => (sheet(), 1..=10i32, 1..=8i32).prop_map(|(s, row, col)| Op::LinkDelete { s, row, col }),
    ]
    .boxed();
    let cfs = prop_oneof![
        8 => (sheet(), cf_range(), cf_rule()).prop_map(|(s, range, rule)| Op::CfAdd { s, range, rule: Box::new(rule) }),
        1 => (sheet(), 0..3u8, cf_range(), cf_rule()).prop_map(|(s, idx, range, rule)| Op::CfUpdate { s, idx, range, rule: Box::new(rule) }),
        1 => (sheet(), 0..3u8).prop_map(|(s, idx)| Op::CfDelete { s, idx }),
        2 => (sheet(), 0..3u8).prop_map(|(s, idx)| Op::CfRaise { s, idx }),
        2 => (sheet(), 0..3u8).prop_map(|(s, idx)| Op::CfLower { s, idx }),
    ]
    .boxed();
    let clears = prop_oneof![
        ops::small_area().prop_map(Op::ClearContents),
        ops::small_area().prop_map(Op::ClearAll),
        ops::small_area().prop_map(Op::ClearFormatting),
    ]
    .boxed();
    prop_oneof![
        14 => one(text_input),
        8 => one(value_input),
        14 => formula_input,
        3 => array_input,
        8 => one(update_style),
        4 => one(border_op),
        6 => paste_style,
        6 => one(sizes),
        10 => one(sheets),
        5 => one(names),
        3 => rename_and_name,
        5 => one(links),
        7 => one(cfs),
        2 => one(clears),
    ]
    .boxed()
}

fn assemble(locale: String, language: String, steps: Vec<(Vec<Op>, u64)>) -> Case {
    let mut ops = vec![];
    let mut steered = 0;
    for (o, n) in steps {
        ops.extend(o);
        steered += n;
    }
    Case { locale, language, steered, ops }
}

/// Workbooks built from the rich builder language. The first steps make the case non-trivial
/// by construction (second sheet, a string needing escaping, a formula, a style).
fn workbook_strategy(steer: &Arc<Steer>, max_steps: usize, depth: u32) -> BoxedStrategy<Case> {
    let steer = steer.clone();
    super::c01::config_strategy()
        .prop_flat_map(move |(locale, language)| {
            let core = (
                pick(TEXTS),
                formula_text(&steer, language.clone(), locale.clone(), depth),
                style_edit(),
                sheet(),
                1..=10i32,
                1..=8i32,
            )
                .prop_map(|(text, (f, n), (path, value), s, row, col)| {
                    (
                        vec![
                            Op::NewSheet,
                            Op::Input { s, row, col, text },
                            Op::Input { s: s + 1, row: (row % 10) + 1, col, text: f },
                            Op::UpdateStyle { a: A { s, row, col, w: 2, h: 2 }, path, value },
                        ],
                        n,
                    )
                });
            let rest = prop::collection::vec(rich_step(&steer, &language, &locale, depth), 0..=max_steps);
            (core, rest).prop_map(move |(core, mut rest)| {
                rest.insert(0, core);
                assemble(locale.clone(), language.clone(), rest)
            })
        })
        .boxed()
}

/// Histories of the shared operation language (structural edits, copy/paste, autofill, undo and
/// redo included) mixed with builder steps.
fn history_strategy(steer: &Arc<Steer>, max_steps: usize, depth: u32) -> BoxedStrategy<Case> {
    let steer = steer.clone();
    super::c01::config_strategy()
        .prop_flat_map(move |(locale, language)| {
            let step = prop_oneof![
                10 => ops::recording_op(Profile::Full).prop_map(|o| (vec![o], 0u64)),
                5 => rich_step(&steer, &language, &locale, depth),
                1 => Just((vec![Op::Undo], 0u64)),
                1 => Just((vec![Op::Redo], 0u64)),
            ];
            prop::collection::vec(step, 1..=max_steps).prop_map(move |steps| assemble(locale.clone(), language.clone(), steps))
        })
        .boxed()
}

// ------------------------------------------------------------------------------------------------

fn encode(case: &Case, avoid: &Avoid) -> Value {
    // the ops really applied: the replay runs with every switch off
    let b = build(case, avoid);
    let eff = Case { locale: case.locale.clone(), language: case.language.clone(), steered: 0, ops: b.effective };
    serde_json::to_value(&eff).unwrap_or(Value::Null)
}

#[cfg(all(target_os = "linux", target_env = "gnu"))]
fn tune_allocator() {
    // Every export builds a dozen deflate streams, each with a few hundred KB of zeroed state.
    // glibc serves such blocks with mmap/munmap; with 16 workers the page faults and TLB
    // shoot-downs dominate the run (measured: 70 ms per export instead of 1 ms). Keep them on
    // the heap. Performance only: no effect on what is checked.
    extern "C" {
        fn mallopt(param: i32, value: i32) -> i32;
    }
    const M_TRIM_THRESHOLD: i32 = -1;
    const M_MMAP_THRESHOLD: i32 = -3;
    unsafe {
        mallopt(M_MMAP_THRESHOLD, 32 << 20);
        mallopt(M_TRIM_THRESHOLD, 512 << 20);
    }
}

#[cfg(not(all(target_os = "linux", target_env = "gnu")))]
fn tune_allocator() {}

pub fn run(ctx: &Ctx) {
    tune_allocator();
    ctx.set_rule(
        "Case = (locale, language, op list) executed on an empty UserModel: 'workbooks' = builder steps (rich strings, values, \
         formula trees, CSE arrays and spills, every style attribute via update_range_style / set_area_with_border / \
         on_paste_styles, sizes and hidden flags, sheet operations with awkward names, scoped defined names, links, every \
         CfRuleInput kind); 'histories' = the shared operation language (structural edits, copy/paste, autofill, undo/redo) mixed \
         with builder steps. Oracle: observe(evaluate(from_workbook(load_from_xlsx_bytes(save_xlsx_to_writer(M))))) == observe(M). \
         Non-trivial: the workbook has >=2 sheets, >=1 formula, >=1 non-default style and >=1 string needing XML escaping \
         (one of < > & \" ' , a control character or an _xHHHH_ look-alike in a cell, sheet name, link or defined name); \
         distinct by the applied op list.",
    );
    ctx.assume("the model is evaluated before export (the exporter requires it); evaluation is never paused");
    ctx.assume("skipped and counted: originals that the engine's own to_bytes/from_bytes + evaluate does not reproduce (history-dependent values: C26/C01 findings), originals that break a C27 structure invariant (spill cells without anchor, array range not covered by its own spill cells, row/column descriptors or links outside the grid), originals holding a name that reads as a cell reference (only reachable through the R1C1 re-parse listed under C01)");
    ctx.assume("numbers compared to 15 significant digits; widths/heights to 10 significant digits (the file carries the shortest round-trip decimal of the stored f64, nothing is lost by design)");
    ctx.assume("hex colours compared case-insensitively; a conditional-format or defined-name formula is the same with or without its leading '='; '$' in a conditional-format range is ignored; a differential font that sets nothing equals no font");
    ctx.assume("not compared: workbook name/locale/timezone, theme, named-style catalogue, view, sheet ids, formatted text, error messages and origins");
    ctx.assume("formulas come from the formula-tree generator (steered away from the listed C09 printer findings) and the operation language; random strings that would be read as formulas are typed as text; cost guards: no range reaching the grid edge, no defined name covering whole columns/rows, cells at the grid edge are rare");
    ctx.assume("an operation that panics ends the case (another property's business; labelled op-panicked)");
    let avoid = Avoid::from_ctx(ctx);
    let steer = Arc::new(Steer::from_ctx(ctx));
    ctx.note(format!("C24 avoidance switches on: {:?}", avoid.on));
    let (n_wb, n_hist, steps, depth) = match ctx.tier {
        Tier::Quick => (27000u64, 9000u64, 24usize, 3u32),
        Tier::Thorough => (180_000, 60_000, 40, 4),
    };
    // development aid: scale the number of cases
    let scale: f64 = std::env::var("VERIF_C24_SCALE").ok().and_then(|s| s.parse().ok()).unwrap_or(1.0);
    let (n_wb, n_hist) = ((n_wb as f64 * scale) as u64, (n_hist as f64 * scale) as u64);
    let avoid_ref = &avoid;
    let steer_ref = &steer;
    if std::env::var("VERIF_C24_SURVEY").is_ok() {
        // development aid: every failure signature with its count and its smallest example, no shrinking
        let seen: std::sync::Mutex<std::collections::BTreeMap<String, (u64, usize, String, String)>> = Default::default();
        let rec = |c: &Case| {
            let o = check_with(c, avoid_ref);
            if let Some(f) = &o.failure {
                let enc = encode(c, avoid_ref).to_string();
                let n = c.ops.len();
                let mut g = seen.lock().unwrap();
                let e = g.entry(f.signature.clone()).or_insert((0, usize::MAX, String::new(), String::new()));
                e.0 += 1;
                if n < e.1 {
                    e.1 = n;
                    e.2 = enc;
                    e.3 = f.detail.clone();
                }
            }
            let mut o = o;
            o.failure = None;
            o
        };
        ctx.campaign("workbooks", n_wb, || workbook_strategy(steer_ref, steps, depth), rec, |c| encode(c, avoid_ref));
        ctx.campaign("histories", n_hist, || history_strategy(steer_ref, steps, depth), rec, |c| encode(c, avoid_ref));
        for (sig, (n, len, case, detail)) in seen.lock().unwrap().iter() {
            let d: String = detail.chars().take(700).collect();
            let c: String = case.chars().take(8000).collect();
            println!("SURVEY {n:6} {sig}\n    ops={len}\n    {}\n    CASE {c}", d.replace('\n', "\n    "));
        }
        return;
    }
    ctx.campaign("workbooks", n_wb, || workbook_strategy(steer_ref, steps, depth), |c| check_with(c, avoid_ref), |c| encode(c, avoid_ref));
    ctx.campaign("histories", n_hist, || history_strategy(steer_ref, steps, depth), |c| check_with(c, avoid_ref), |c| encode(c, avoid_ref));
}

pub fn replay(ctx: &Ctx, _campaign: &str, case: &Value) -> Result<Outcome, String> {
    let c: Case = serde_json::from_value(case.clone()).map_err(|e| e.to_string())?;
    Ok(check_with(&c, &Avoid::from_ctx(ctx)))
}

