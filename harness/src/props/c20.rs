//! C20 — Number formats display correctly rounded values.
//!
//! Oracle: R-num, an independent decimal formatter. The double is reduced to its 15 significant
//! decimal digits (`{:.14e}`, correctly rounded by Rust), scaled by 100 per `%` (a shift of the
//! decimal point), rounded half away from zero at the format's number of decimals with digit
//! arithmetic on the digit vector, and laid out over the placeholders (`0 # ?`), grouping,
//! decimal point, exponent and literals. The reference never parses the format string: formats
//! are generated as a structure (`Fmt`), rendered to a format code for the engine, and the
//! reference works on the structure.
//!
//! Signatures are input classes computed by the reference (never from the engine's output).

use ironcalc_base::formatter::format::format_number;
use ironcalc_base::locale::get_locale;
use ironcalc_base::Model;
use proptest::prelude::*;
use serde::{Deserialize, Serialize};
use serde_json::Value;

use crate::engine::{config, panics, Ctx, Outcome};

// ------------------------------------------------------------------------------------------------
// Format structure
// ------------------------------------------------------------------------------------------------

#[derive(Clone, Debug, Serialize, Deserialize, PartialEq)]
pub enum Lit {
    /// a character Excel displays without quoting: `$ - + ( ) space €`
    Bare(char),
    /// `"text"` (no double quote inside)
    Quoted(String),
    /// `\c`
    Escaped(char),
    /// `%` (scales by 100)
    Percent,
}

#[derive(Clone, Debug, Serialize, Deserialize, PartialEq)]
pub struct Exp {
    /// `E+` (sign always shown) or `E-` (only a minus sign is shown)
    pub plus: bool,
    /// number of `0` placeholders of the exponent
    pub digits: usize,
}

#[derive(Clone, Debug, Serialize, Deserialize, PartialEq)]
pub struct Section {
    pub prefix: Vec<Lit>,
    /// integer placeholders, left to right, e.g. "##0" (`w*0*` with one weak kind `#` or `?`).
    /// Empty only for a text-only section.
    pub int: String,
    /// thousands grouping (commas between the integer placeholders, every 3 from the right)
    pub group: bool,
    /// fraction placeholders, e.g. "00#" (`0*w*`); empty = no decimal point
    pub frac: String,
    pub exp: Option<Exp>,
    pub suffix: Vec<Lit>,
}

#[derive(Clone, Debug, Serialize, Deserialize, PartialEq)]
pub struct Fmt {
    pub sections: Vec<Section>,
}

fn render_lit(l: &Lit, out: &mut String) {
    match l {
        Lit::Bare(c) => out.push(*c),
        Lit::Quoted(s) => {
            out.push('"');
            out.push_str(s);
            out.push('"');
        }
        Lit::Escaped(c) => {
            out.push('\\');
            out.push(*c);
        }
        Lit::Percent => out.push('%'),
    }
}

impl Section {
    pub fn render(&self) -> String {
        let mut s = String::new();
        for l in &self.prefix {
            render_lit(l, &mut s);
        }
        let n = self.int.chars().count();
        for (i, c) in self.int.chars().enumerate() {
            s.push(c);
            let right = n - 1 - i; // placeholders to the right
            if self.group && right > 0 && right % 3 == 0 {
                s.push(',');
            }
        }
        if self.group && n > 1 && n <= 3 {
            // fewer than four placeholders: put the comma after the first one (`#,#0`)
            let pos = s.len() - (n - 1);
            s.insert(pos, ',');
        }
        if !self.frac.is_empty() {
            s.push('.');
            s.push_str(&self.frac);
        }
        if let Some(e) = &self.exp {
            s.push_str(if e.plus { "E+" } else { "E-" });
            for _ in 0..e.digits {
                s.push('0');
            }
        }
        for l in &self.suffix {
            render_lit(l, &mut s);
        }
        s
    }
    fn percent(&self) -> i32 {
        self.prefix.iter().chain(self.suffix.iter()).filter(|l| **l == Lit::Percent).count() as i32
    }
    fn prec(&self) -> usize {
        self.frac.chars().count()
    }
    fn well_formed(&self) -> Result<(), String> {
        let weak_then_zero = |s: &str, rev: bool| -> bool {
            // int: w*0* ; frac: 0*w* ; one weak kind
            let v: Vec<char> = if rev { s.chars().rev().collect() } else { s.chars().collect() };
            let mut kinds: Vec<char> = v.iter().copied().filter(|c| *c != '0').collect();
            kinds.dedup();
            if kinds.len() > 1 || v.iter().any(|c| !"0#?".contains(*c)) {
                return false;
            }
            let first_zero = v.iter().position(|c| *c == '0').unwrap_or(v.len());
            v[first_zero..].iter().all(|c| *c == '0')
        };
        if !weak_then_zero(&self.int, false) || !weak_then_zero(&self.frac, true) {
            return Err("placeholders must be w*0* (integer) and 0*w* (fraction) with one weak kind".into());
        }
        if self.group && (self.int.chars().count() < 2 || self.int.contains('?')) {
            return Err("grouping needs >=2 integer placeholders of kind # or 0".into());
        }
        if self.int.is_empty() && (!self.frac.is_empty() || self.exp.is_some()) {
            return Err("a numeric section needs an integer placeholder".into());
        }
        if let Some(e) = &self.exp {
            if e.digits == 0 || e.digits > 4 || self.group {
                return Err("bad exponent".into());
            }
        }
        for l in self.prefix.iter().chain(self.suffix.iter()) {
            let ok = match l {
                Lit::Bare(c) => BARE.contains(c),
                Lit::Quoted(s) => !s.contains('"'),
                Lit::Escaped(c) => *c != '"',
                Lit::Percent => true,
            };
            if !ok {
                return Err(format!("literal outside the generated family: {l:?}"));
            }
        }
        if self.percent() > 2 {
            return Err("more than two percent signs".into());
        }
        for ls in [&self.prefix, &self.suffix] {
            if ls.windows(2).any(|w| matches!((&w[0], &w[1]), (Lit::Quoted(_), Lit::Quoted(_)))) {
                return Err("adjacent quoted literals".into());
            }
        }
        Ok(())
    }
}

impl Fmt {
    pub fn render(&self) -> String {
        self.sections.iter().map(|s| s.render()).collect::<Vec<_>>().join(";")
    }
}

const BARE: [char; 7] = ['$', '-', '+', '(', ')', ' ', '€'];

// ------------------------------------------------------------------------------------------------
// R-num: decimal arithmetic on digit vectors
// ------------------------------------------------------------------------------------------------

/// A non-negative decimal `0.d1 d2 .. dn * 10^point` (d1 != 0); zero = no digits.
#[derive(Clone, Debug, PartialEq)]
struct Dec {
    digs: Vec<u8>,
    point: i32,
}

/// The 15-significant-digit reduction of |x| (x finite).
fn reduce15(x: f64) -> Dec {
    let s = format!("{:.14e}", x.abs());
    let (mant, exp) = s.split_once('e').expect("exponent");
    let e: i32 = exp.parse().expect("exponent number");
    let mut digs: Vec<u8> = mant.bytes().filter(|b| b.is_ascii_digit()).map(|b| b - b'0').collect();
    while digs.last() == Some(&0) {
        digs.pop();
    }
    if digs.is_empty() {
        return Dec { digs, point: 0 };
    }
    Dec { digs, point: e + 1 }
}

#[derive(Clone, Debug, Default, PartialEq)]
pub struct RoundInfo {
    /// some non-zero digit was discarded
    inexact: bool,
    /// the discarded part is exactly one half of the last kept place
    tie: bool,
    /// rounded away from zero
    up: bool,
    /// rounding up changed the integer part (fixed) / the exponent, or with decimals the
    /// mantissa's integer digit (scientific)
    carry: bool,
    /// the discarded digits read 4 9* d (d >= 5): rounding first at a finer place and then at the
    /// format's place gives another result than rounding once
    two_step_sensitive: bool,
    /// the rounded magnitude is exactly one unit of the last displayed place
    one_unit: bool,
}

fn two_step_sensitive(discarded: &[u8]) -> bool {
    // 4 d .. (d >= 5): rounding first at a finer place lifts the discarded part to exactly one
    // half; 5 d .. (d < 5, not an exact half): a finer rounding lowers it to exactly one half;
    // exactly 5 5: a tie at the next finer place which, broken downwards, leaves a tie again
    match discarded.first() {
        Some(4) => discarded.len() > 1 && discarded[1] >= 5,
        Some(5) => discarded.len() > 1 && (discarded[1] < 5 || discarded == [5, 5]),
        _ => false,
    }
}

fn increment(n: &mut Vec<u8>) {
    let mut i = n.len();
    loop {
        if i == 0 {
            n.insert(0, 1);
            return;
        }
        i -= 1;
        if n[i] == 9 {
            n[i] = 0;
        } else {
            n[i] += 1;
            return;
        }
    }
}

/// Round `d` half away from zero at `prec` decimals. Returns (integer digits without leading
/// zeros — empty for 0 —, exactly `prec` fraction digits, info).
fn round_fixed(d: &Dec, prec: usize) -> (Vec<u8>, Vec<u8>, RoundInfo) {
    let mut info = RoundInfo::default();
    // n = floor(d * 10^prec) as a digit vector
    let idx = d.point as i64 + prec as i64; // number of digits of n
    let len = d.digs.len() as i64;
    let mut n: Vec<u8> = vec![];
    if !d.digs.is_empty() {
        if idx >= len {
            n = d.digs.clone();
            n.extend(std::iter::repeat(0).take((idx - len) as usize));
        } else if idx < 0 {
            info.inexact = true; // first discarded digit is a 0 in front of d1: rounds to zero
        } else {
            let idx = idx as usize;
            n = d.digs[..idx].to_vec();
            let first = d.digs[idx];
            let rest = d.digs[idx + 1..].iter().any(|&c| c != 0);
            info.inexact = true; // digs has no trailing zeros, so something non-zero is discarded
            info.tie = first == 5 && !rest;
            info.up = first >= 5;
            info.two_step_sensitive = two_step_sensitive(&d.digs[idx..]);
            if info.up {
                let before = n.len().saturating_sub(prec);
                let int_before: Vec<u8> = n[..before].to_vec();
                increment(&mut n);
                let after = n.len().saturating_sub(prec);
                info.carry = n[..after] != int_before[..];
            }
        }
    }
    info.one_unit = n == [1];
    // split
    let l = n.len();
    let (int, frac) = if l > prec {
        (n[..l - prec].to_vec(), n[l - prec..].to_vec())
    } else {
        let mut f = vec![0u8; prec - l];
        f.extend_from_slice(&n);
        (vec![], f)
    };
    (int, frac, info)
}

/// Exponent sections with `n` integer placeholders (n = 1: scientific; n > 1: engineering, the
/// exponent is a multiple of n and the mantissa has 1..=n integer digits):
/// (mantissa integer digits, `prec` fraction digits, exponent, info).
fn round_sci(d: &Dec, prec: usize, n_int: usize) -> (Vec<u8>, Vec<u8>, i32, RoundInfo) {
    let mut info = RoundInfo::default();
    if d.digs.is_empty() {
        return (vec![], vec![0; prec], 0, info);
    }
    let step = n_int.max(1) as i32;
    let e = d.point - 1; // decimal exponent of the leading digit
    let mut exp = e.div_euclid(step) * step;
    let mut ints = (e - exp + 1) as usize; // integer digits of the mantissa
    let keep = ints + prec;
    let mut n: Vec<u8> = d.digs.iter().copied().take(keep).collect();
    while n.len() < keep {
        n.push(0);
    }
    if d.digs.len() > keep {
        let first = d.digs[keep];
        let rest = d.digs[keep + 1..].iter().any(|&c| c != 0);
        info.inexact = true;
        info.tie = first == 5 && !rest;
        info.up = first >= 5;
        info.two_step_sensitive = two_step_sensitive(&d.digs[keep..]);
        if info.up {
            let lead: Vec<u8> = n[..ints].to_vec();
            increment(&mut n);
            if n.len() > keep {
                // one more integer digit
                if ints == step as usize {
                    n.truncate(1 + prec);
                    ints = 1;
                    exp += step;
                } else {
                    ints += 1;
                }
                info.carry = true;
            } else if prec > 0 && n[..ints] != lead[..] {
                info.carry = true;
            }
        }
    }
    info.one_unit = n == [1];
    (n[..ints].to_vec(), n[ints..].to_vec(), exp, info)
}

pub struct Symbols {
    pub decimal: String,
    pub group: String,
    pub western_grouping: bool,
}

pub fn symbols(locale: &str) -> Option<Symbols> {
    let l = get_locale(locale).ok()?;
    Some(Symbols {
        decimal: l.numbers.symbols.decimal.clone(),
        group: l.numbers.symbols.group.clone(),
        western_grouping: l.numbers.decimal_formats.standard == "#,##0.###",
    })
}

/// What the reference says about one (value, format, locale).
pub struct Reference {
    /// acceptable texts (more than one only where the statement does not settle the choice)
    pub texts: Vec<String>,
    pub section: usize,
    pub negative: bool,
    /// the section's minus sign is added automatically (single section, negative value)
    pub auto_minus: bool,
    pub info: RoundInfo,
    /// the rounded magnitude is zero
    pub rounds_to_zero: bool,
    /// number of integer digits of the rounded magnitude (fixed-point sections)
    pub int_digits: usize,
    /// all displayed fraction digits are zero
    pub fraction_zero: bool,
    /// decimal exponent after rounding (exponent sections)
    pub exponent: i32,
    /// rounding the exact binary expansion (instead of the 15-digit reduction) at the same
    /// place gives other digits
    pub binary_differs: bool,
    /// `info.tie` and the double itself is exactly halfway (fixed-point sections)
    pub exact_binary_tie: bool,
    /// the value has non-zero digits the format does not keep
    pub nontrivial: bool,
    /// the format displays places beyond the 15th significant digit of the value
    pub shows_beyond_15: bool,
    /// 0 < |scaled value| < 1
    pub scaled_below_one: bool,
    /// number of leading 9s of the 15-digit decimal
    pub leading_nines: usize,
    /// percent sections: the same for the other order of scaling and reduction, when it differs
    pub alt: Option<Box<Reference>>,
}

fn layout_int(ph: &str, digits: &[u8], group: Option<&str>) -> String {
    // emitted characters right to left, with the group separator every three emitted characters
    let ph: Vec<char> = ph.chars().collect();
    let n = ph.len();
    let m = digits.len();
    let mut cells: Vec<char> = vec![]; // left to right
    if m >= n {
        cells.extend(digits.iter().map(|d| (b'0' + d) as char));
    } else {
        for p in ph.iter().take(n - m) {
            match p {
                '0' => cells.push('0'),
                '?' => cells.push(' '),
                _ => {}
            }
        }
        cells.extend(digits.iter().map(|d| (b'0' + d) as char));
    }
    let mut out = String::new();
    let k = cells.len();
    for (i, c) in cells.iter().enumerate() {
        out.push(*c);
        let right = k - 1 - i;
        if let Some(g) = group {
            if right > 0 && right % 3 == 0 {
                out.push_str(g);
            }
        }
    }
    out
}

fn layout_frac(ph: &str, digits: &[u8]) -> String {
    let mut out = String::new();
    for (i, p) in ph.chars().enumerate() {
        let significant = digits[i..].iter().any(|&d| d != 0);
        let c = (b'0' + digits[i]) as char;
        match p {
            '0' => out.push(c),
            '#' => {
                if significant {
                    out.push(c)
                }
            }
            _ => out.push(if significant { c } else { ' ' }),
        }
    }
    out
}

fn lits(ls: &[Lit]) -> String {
    let mut s = String::new();
    for l in ls {
        match l {
            Lit::Bare(c) | Lit::Escaped(c) => s.push(*c),
            Lit::Quoted(t) => s.push_str(t),
            Lit::Percent => s.push('%'),
        }
    }
    s
}

/// digits the exact binary value of `y` (>= 0) gives when rounded at `prec` decimals
/// (Rust's `{:.N}` is exact on the binary expansion; half-even only on exact binary ties)
fn binary_fixed_digits(y: f64, prec: usize) -> String {
    format!("{:.*}", prec, y).chars().filter(|c| c.is_ascii_digit()).collect::<String>().trim_start_matches('0').to_string()
}

fn digits_string(int: &[u8], frac: &[u8]) -> String {
    let s: String = int.iter().chain(frac.iter()).map(|d| (b'0' + d) as char).collect();
    s.trim_start_matches('0').to_string()
}

/// `None`: the pair is outside the property's domain (scaled value not finite).
pub fn reference(x: f64, fmt: &Fmt, sym: &Symbols) -> Option<Reference> {
    let negative = x < 0.0;
    let section = if fmt.sections.len() >= 2 && negative { 1 } else { 0 };
    let sec = &fmt.sections[section];
    let pct = sec.percent();
    // the scaled value as a double (what any double-based implementation computes) and as an
    // exact decimal shift of the reduced value
    let y = x.abs() * 100.0_f64.powi(pct);
    if !y.is_finite() || !format!("{:.14e}", y).parse::<f64>().map(|v| v.is_finite()).unwrap_or(false) {
        return None;
    }
    let mut a = reduce15(x);
    if !a.digs.is_empty() {
        a.point += 2 * pct;
    }
    let mut r = reference_dec(x, y, &a, fmt, sym);
    let b = reduce15(y);
    if pct > 0 && b != a {
        let alt = reference_dec(x, y, &b, fmt, sym);
        for t in &alt.texts {
            if !r.texts.contains(t) {
                r.texts.push(t.clone());
            }
        }
        r.alt = Some(Box::new(alt));
    }
    Some(r)
}

/// The reference for one 15-digit decimal `a` of the scaled magnitude.
fn reference_dec(x: f64, y: f64, a: &Dec, fmt: &Fmt, sym: &Symbols) -> Reference {
    let negative = x < 0.0;
    let (section, auto_minus) = if fmt.sections.len() >= 2 && negative { (1, false) } else { (0, negative) };
    let sec = &fmt.sections[section];
    let prec = sec.prec();
    let numeric = !sec.int.is_empty();
    let mut texts: Vec<String> = vec![];
    let mut info = RoundInfo::default();
    let mut zero = false;
    let mut int_digits = 0;
    let mut fraction_zero = true;
    let mut exponent = 0;
    // digits (and exponent) to compare with a rounding of the binary expansion
    let mut dstr = String::new();
    let mut body = String::new();
    if !numeric {
        // text-only section
    } else if let Some(e) = &sec.exp {
        let (m, f, ex, i) = round_sci(a, prec, sec.int.chars().count());
        body = layout_int(&sec.int, &m, None);
        if prec > 0 {
            body.push_str(&sym.decimal);
            body.push_str(&layout_frac(&sec.frac, &f));
        }
        body.push('E');
        if ex < 0 {
            body.push('-');
        } else if e.plus {
            body.push('+');
        }
        body.push_str(&format!("{:0>width$}", ex.abs(), width = e.digits));
        zero = a.digs.is_empty();
        fraction_zero = f.iter().all(|&c| c == 0);
        int_digits = 1;
        exponent = ex;
        dstr = format!("{}e{}", digits_string(&m, &f), ex);
        info = i;
    } else {
        let (int, f, i) = round_fixed(a, prec);
        let g = if sec.group { Some(sym.group.as_str()) } else { None };
        body = layout_int(&sec.int, &int, g);
        if prec > 0 {
            body.push_str(&sym.decimal);
            body.push_str(&layout_frac(&sec.frac, &f));
        }
        fraction_zero = f.iter().all(|&c| c == 0);
        zero = int.is_empty() && fraction_zero;
        int_digits = int.len();
        dstr = digits_string(&int, &f);
        info = i;
    }
    let text = format!("{}{}{}", lits(&sec.prefix), body, lits(&sec.suffix));
    if auto_minus {
        texts.push(format!("-{text}"));
        if !numeric || zero {
            // a negative value that rounds to zero (or a text-only single section): the
            // statement does not settle whether the sign is shown (Excel shows it)
            texts.push(text);
        }
    } else {
        texts.push(text);
    }
    let nonzero = !a.digs.is_empty();
    let mut binary_differs = false;
    if numeric && nonzero {
        if sec.exp.is_some() && sec.int.chars().count() > 1 {
            // engineering: not compared
        } else if sec.exp.is_some() {
            // `{:.Ne}` rounds the exact binary expansion to N+1 significant digits
            let s = format!("{:.*e}", prec, y);
            let (m, e) = s.split_once('e').unwrap();
            let m: String = m.chars().filter(|c| c.is_ascii_digit()).collect();
            binary_differs = format!("{}e{}", m.trim_start_matches('0'), e) != dstr;
        } else if y < 1e22 {
            binary_differs = binary_fixed_digits(y, prec) != dstr;
        }
    }
    let mut exact_binary_tie = false;
    if numeric && info.tie && sec.exp.is_none() && y < 1e22 {
        // the exact binary expansion (17 significant digits are followed by many more): a tie
        // of the 15-digit decimal is exact iff the expansion reads 5000.. after the last place
        let s = format!("{:.*}", prec + 40, y);
        let tail = &s[s.len() - 40..];
        exact_binary_tie = tail.starts_with('5') && tail[1..].bytes().all(|b| b == b'0');
    }
    // digits the format displays counting from the leftmost of (first significant digit, units)
    // for fixed-point sections; mantissa digits for exponent sections
    let shown_sig: i64 = if sec.exp.is_some() { 1 + prec as i64 } else { a.point.max(1) as i64 + prec as i64 };
    let shows_beyond_15 = numeric && nonzero && shown_sig > 15 && (prec > 0 || {
        // integers with more than 15 digits: does the double carry non-zero 16th/17th digits?
        let m = |s: String| s.split('e').next().unwrap().chars().filter(|c| c.is_ascii_digit()).collect::<String>();
        m(format!("{:.16e}", y)) != format!("{}00", m(format!("{:.14e}", y)))
    });
    Reference {
        texts,
        section,
        negative,
        auto_minus,
        rounds_to_zero: zero,
        int_digits,
        fraction_zero,
        exponent,
        binary_differs,
        exact_binary_tie,
        nontrivial: numeric && info.inexact,
        shows_beyond_15,
        scaled_below_one: nonzero && a.point <= 0,
        leading_nines: a.digs.iter().take_while(|&&d| d == 9).count(),
        info,
        alt: None,
    }
}

// ------------------------------------------------------------------------------------------------
// Case, check, classification
// ------------------------------------------------------------------------------------------------

#[derive(Clone, Debug, Serialize, Deserialize)]
pub struct Case {
    pub locale: String,
    /// the double, printed with `{:e}` (shortest round-trip representation; parsed back exactly)
    pub value: String,
    pub format: Fmt,
    /// the rendered format code (informational; recomputed from `format`)
    #[serde(default)]
    pub code: String,
    /// generator class of the value (informational)
    #[serde(default)]
    pub source: String,
}

impl Case {
    pub fn new(locale: &str, x: f64, format: Fmt, source: &str) -> Case {
        let code = format.render();
        Case { locale: locale.to_string(), value: format!("{x:e}"), format, code, source: source.to_string() }
    }
    fn x(&self) -> Option<f64> {
        self.value.parse::<f64>().ok().filter(|v| v.is_finite())
    }
}

/// Input classes that are triggers of root causes found so far, in priority order. They are
/// computed by the reference from the (value, format) pair only — never from the engine's
/// output. The first class present names a failure; the main campaign steers away from every
/// pair that has *any* class whose finding is listed in known_findings.json (switch
/// `c20:<class>`), so an avoided class can never be the signature of a main-campaign failure.
pub const CLASSES: [&str; 15] = [
    "engineering",
    "beyond-15-digits",
    "exponent-zero",
    "mantissa-carry",
    "tie",
    "unreduced-binary",
    "carry-below-one",
    "two-step-rounding",
    "negative-one-unit",
    "grouping-wider-than-number",
    "blank-?-fraction",
    "exponent-wider-than-format",
    "power-of-ten-not-normal",
    "just-below-power-of-ten",
    "mantissa-last-digits",
];

/// Bit set over `CLASSES`.
#[derive(Clone, Copy, Default, Debug, PartialEq)]
pub struct ClassSet(pub u32);

impl ClassSet {
    fn with(self, name: &str) -> ClassSet {
        let i = CLASSES.iter().position(|c| *c == name).expect("class name");
        ClassSet(self.0 | (1 << i))
    }
    fn first(self) -> Option<&'static str> {
        CLASSES.iter().enumerate().find(|(i, _)| self.0 & (1 << i) != 0).map(|(_, c)| *c)
    }
    fn names(self) -> Vec<&'static str> {
        CLASSES.iter().enumerate().filter(|(i, _)| self.0 & (1 << i) != 0).map(|(_, c)| *c).collect()
    }
    fn intersects(self, o: ClassSet) -> bool {
        self.0 & o.0 != 0
    }
}

pub fn avoided_classes(ctx: &Ctx) -> ClassSet {
    let mut s = ClassSet::default();
    for c in CLASSES {
        if ctx.avoid(&format!("c20:{c}")) {
            s = s.with(c);
        }
    }
    s
}

pub fn input_classes(fmt: &Fmt, r: &Reference) -> ClassSet {
    let mut s = input_classes_one(fmt, r);
    if let Some(alt) = &r.alt {
        s = ClassSet(s.0 | input_classes_one(fmt, alt).0);
    }
    s
}

fn input_classes_one(fmt: &Fmt, r: &Reference) -> ClassSet {
    let sec = &fmt.sections[r.section];
    let mut s = ClassSet::default();
    if sec.int.is_empty() {
        return s;
    }
    let prec = sec.prec();
    let sci = sec.exp.is_some();
    if sci && sec.int.chars().count() > 1 {
        // exponent must be a multiple of the number of integer placeholders
        s = s.with("engineering");
    }
    if r.shows_beyond_15 {
        s = s.with("beyond-15-digits");
    }
    if sci && !r.rounds_to_zero {
        if r.exponent == 0 {
            s = s.with("exponent-zero");
        }
        if r.info.carry {
            s = s.with("mantissa-carry");
        }
        let e = sec.exp.as_ref().map(|e| e.digits).unwrap_or(0);
        if e >= 2 && r.exponent.abs().to_string().len() > e {
            s = s.with("exponent-wider-than-format");
        }
        if 1 + prec >= 14 {
            // the mantissa comes from a binary division by 10^exponent
            s = s.with("mantissa-last-digits");
        }
        if r.leading_nines >= 12 {
            s = s.with("just-below-power-of-ten");
        }
        if r.exponent < -307 {
            // 10^exponent is not a normal double
            s = s.with("power-of-ten-not-normal");
        }
    }
    if r.info.tie && (sci || r.exact_binary_tie) {
        s = s.with("tie");
    }
    if (r.info.tie && !sci && !r.exact_binary_tie) || r.binary_differs {
        s = s.with("unreduced-binary");
    }
    if !sci && r.scaled_below_one && r.info.carry && prec > 0 {
        s = s.with("carry-below-one");
    }
    if r.info.two_step_sensitive && (sci || r.scaled_below_one) {
        s = s.with("two-step-rounding");
    }
    if r.auto_minus && r.info.one_unit {
        s = s.with("negative-one-unit");
    }
    if sec.group {
        let n = sec.int.chars().count();
        let zeros = sec.int.chars().filter(|c| *c == '0').count();
        if n > r.int_digits && r.int_digits.max(zeros) >= 4 {
            s = s.with("grouping-wider-than-number");
        }
    }
    if sec.frac.starts_with('?') && r.fraction_zero {
        s = s.with("blank-?-fraction");
    }
    s
}

pub fn check(avoid: ClassSet, case: &Case) -> Outcome {
    let mut o = Outcome::pass();
    let Some(x) = case.x() else {
        return o.label("invalid:value");
    };
    if case.format.sections.is_empty() || case.format.sections.len() > 2 {
        return o.label("invalid:sections");
    }
    for s in &case.format.sections {
        if s.well_formed().is_err() {
            return o.label("invalid:format");
        }
    }
    let Some(sym) = symbols(&case.locale) else {
        return o.label("invalid:locale");
    };
    let code = case.format.render();
    let Some(r) = reference(x, &case.format, &sym) else {
        o.excluded += 1;
        return o.label("out-of-domain:scaled-value-or-its-15-digit-decimal-overflows");
    };
    let sec = &case.format.sections[r.section];
    if sec.group && !sym.western_grouping {
        o.excluded += 1;
        return o.label("out-of-domain:non-western-grouping");
    }
    let classes = input_classes(&case.format, &r);
    let kind = if sec.int.is_empty() {
        "text-only"
    } else if sec.exp.is_some() {
        "exponent"
    } else {
        "fixed"
    };
    for c in classes.names() {
        o = o.label(format!("class:{c}"));
    }
    if classes.intersects(avoid) {
        o.excluded += 1;
        return o.label(format!("excluded:{}", ClassSet(classes.0 & avoid.0).first().unwrap_or("?")));
    }
    if classes.0 == 0 {
        o = o.label("class:none");
    }
    o = o
        .label(format!("kind:{kind}"))
        .label(format!("locale:{}", case.locale))
        .label(format!("source:{}", case.source))
        .label(format!(
            "round:{}",
            if !r.info.inexact {
                "exact"
            } else if r.info.tie {
                "tie"
            } else if r.info.carry {
                "up-carry"
            } else if r.info.up {
                "up"
            } else {
                "down"
            }
        ))
        .label(format!("prec:{}", sec.prec().min(9)))
        .label(format!("sections:{}{}", case.format.sections.len(), if r.negative { ":negative" } else { "" }));
    if sec.group {
        o = o.label("feature:group");
    }
    if sec.percent() > 0 {
        o = o.label("feature:percent");
    }
    if sec.int.contains('?') || sec.frac.contains('?') {
        o = o.label("feature:?");
    }
    if sec.prefix.iter().chain(sec.suffix.iter()).any(|l| *l != Lit::Percent) {
        o = o.label("feature:literal");
    }
    if r.rounds_to_zero {
        o = o.label("feature:rounds-to-zero");
    }
    if r.texts.len() > 1 {
        o = o.label("feature:two-acceptable-texts");
    }
    if r.nontrivial {
        o = o.nontrivial(format!("{}|{}|{}", case.locale, case.value, code));
    }
    let locale = get_locale(&case.locale).expect("locale");
    let got = panics::catch(|| format_number(x, &code, locale));
    // signature: the first input class; without one, the kind of section and the wrong aspect
    let sig = |what: &str| match classes.first() {
        Some(c) => format!("C20:{c}"),
        None => format!("C20:{kind}:{what}"),
    };
    match got {
        Err(p) => o.fail(
            format!("C20:{}", p.class()),
            format!("format_number({x:e}, {code:?}, {}) panicked: {}", case.locale, p.describe()),
        ),
        Ok(f) => {
            if let Some(e) = f.error {
                return o.fail(
                    sig("format-rejected"),
                    format!("format_number({x:e}, {code:?}, {}) returns error {e:?} (text {:?}); reference {:?}", case.locale, f.text, r.texts),
                );
            }
            if r.texts.iter().any(|t| *t == f.text) {
                return o;
            }
            let what = symptom(&f.text, &r, &sym);
            o.fail(
                sig(what),
                format!(
                    "format_number({x:e}, {code:?}, locale {}) = {:?}; reference {:?} (15-digit decimal {:.14e}; input classes {:?}; wrong: {what})",
                    case.locale,
                    f.text,
                    r.texts,
                    x,
                    classes.names()
                ),
            )
        }
    }
}

/// Which aspect of the text is wrong (used in signatures of failures without an input class).
fn symptom(got: &str, r: &Reference, sym: &Symbols) -> &'static str {
    let want = &r.texts[0];
    let digits = |s: &str| s.chars().filter(|c| c.is_ascii_digit()).collect::<String>();
    let strip = |s: &str| s.replace(&sym.group, "").replace('-', "");
    if digits(got) != digits(want) {
        return "digits";
    }
    if got.matches('-').count() != want.matches('-').count() {
        return "sign";
    }
    if strip(got) == strip(want) {
        return "grouping";
    }
    "layout"
}

// ------------------------------------------------------------------------------------------------
// Generators
// ------------------------------------------------------------------------------------------------

const POOL: &str = "abxyzEeDdMmHhSsYyGg0159#?.,%;-+ _*@[]€éß¥/:!'";

fn lit_strategy() -> impl Strategy<Value = Lit> {
    let pool: Vec<char> = POOL.chars().collect();
    let pool2 = pool.clone();
    prop_oneof![
        3 => prop::sample::select(BARE.to_vec()).prop_map(Lit::Bare),
        2 => prop::collection::vec(prop::sample::select(pool), 1..4).prop_map(|v| Lit::Quoted(v.into_iter().collect())),
        1 => prop::sample::select(pool2).prop_map(Lit::Escaped),
    ]
}

fn lits_strategy() -> impl Strategy<Value = Vec<Lit>> {
    prop_oneof![
        6 => Just(vec![]),
        3 => prop::collection::vec(lit_strategy(), 1..=1),
        1 => prop::collection::vec(lit_strategy(), 2..=3),
    ]
}

#[derive(Clone, Copy, Debug, PartialEq)]
pub enum FmtProfile {
    /// the stated family minus engineering exponents
    Main,
    /// exponent formats with more than one integer placeholder
    Engineering,
}

fn section_strategy(profile: FmtProfile) -> impl Strategy<Value = Section> {
    (
        lits_strategy(),
        lits_strategy(),
        // integer placeholders
        (prop_oneof![4 => Just('#'), 1 => Just('?')], 0usize..=4, prop_oneof![1 => Just(0usize), 6 => Just(1usize), 2 => 2usize..=5]),
        // grouping
        prop::bool::weighted(0.35),
        // fraction: zeros, weak kind, weak count
        (
            prop_oneof![3 => Just(0usize), 4 => 1usize..=3, 2 => 4usize..=8, 1 => 9usize..=16],
            prop_oneof![4 => Just('#'), 1 => Just('?')],
            prop_oneof![4 => Just(0usize), 2 => 1usize..=3],
        ),
        // exponent
        prop_oneof![5 => Just(None), 1 => (any::<bool>(), 1usize..=3).prop_map(|(plus, digits)| Some(Exp { plus, digits }))],
        // percent: 0 none, 1 suffix first, 2 prefix, 3 suffix last, 4 two
        prop_oneof![7 => Just(0u8), 3 => Just(1u8), 1 => Just(2u8), 1 => Just(3u8), 1 => Just(4u8)],
    )
        .prop_map(move |(mut prefix, mut suffix, (wk, wn, zn), group, (fz, fk, fw), exp, pct)| {
            let mut wn = wn;
            let mut zn = zn;
            if wn + zn == 0 {
                zn = 1;
            }
            let mut exp = exp;
            let mut group = group;
            match profile {
                FmtProfile::Engineering => {
                    if exp.is_none() {
                        exp = Some(Exp { plus: true, digits: 1 });
                    }
                    if wn + zn < 2 {
                        wn = 2;
                    }
                }
                FmtProfile::Main => {}
            }
            let mut wk = wk;
            if exp.is_some() {
                group = false;
                if profile != FmtProfile::Engineering {
                    wn = 0;
                    zn = 1;
                } else {
                    wk = '#';
                }
            }
            if group {
                wk = '#';
                if wn + zn < 2 {
                    wn = 4 - zn;
                }
            }
            let int: String = std::iter::repeat(wk).take(wn).chain(std::iter::repeat('0').take(zn)).collect();
            let frac: String = std::iter::repeat('0').take(fz).chain(std::iter::repeat(fk).take(if fz + fw > 16 { 0 } else { fw })).collect();
            match pct {
                1 => suffix.insert(0, Lit::Percent),
                2 => prefix.push(Lit::Percent),
                3 => suffix.push(Lit::Percent),
                4 => {
                    suffix.insert(0, Lit::Percent);
                    suffix.push(Lit::Percent);
                }
                _ => {}
            }
            Section { prefix: merge_quoted(prefix), int, group, frac, exp, suffix: merge_quoted(suffix) }
        })
}

/// `"a""b"` would read as an escaped quote: adjacent quoted literals are merged
fn merge_quoted(ls: Vec<Lit>) -> Vec<Lit> {
    let mut out: Vec<Lit> = vec![];
    for l in ls {
        match (out.last_mut(), &l) {
            (Some(Lit::Quoted(a)), Lit::Quoted(b)) => a.push_str(b),
            _ => out.push(l),
        }
    }
    out
}

fn text_section_strategy() -> impl Strategy<Value = Section> {
    prop::collection::vec(lit_strategy(), 1..=2).prop_map(|prefix| Section {
        prefix: merge_quoted(prefix),
        int: String::new(),
        group: false,
        frac: String::new(),
        exp: None,
        suffix: vec![],
    })
}

pub fn fmt_strategy(profile: FmtProfile) -> impl Strategy<Value = Fmt> {
    prop_oneof![
        6 => section_strategy(profile).prop_map(|s| Fmt { sections: vec![s] }),
        3 => (section_strategy(profile), section_strategy(profile)).prop_map(|(a, b)| Fmt { sections: vec![a, b] }),
        1 => (section_strategy(profile), text_section_strategy()).prop_map(|(a, b)| Fmt { sections: vec![a, b] }),
    ]
}

/// Value recipes; the concrete double is computed from the recipe and the format's number of
/// decimals (so that halfway cases and carries sit at the place the format rounds at).
#[derive(Clone, Debug)]
enum Recipe {
    Bits(u64),
    /// digits (1..=17 of them) and a decimal exponent for the leading digit
    Decimal(Vec<u8>, i32),
    /// 2^53 + k, 10^15 + k, 10^n + k
    NearBig(u8, i32),
    /// mantissa digits with an extreme decimal exponent
    Extreme(Vec<u8>, i32),
    /// integer part, kept decimals, then a 5 at offset `delta` from the format's last place
    Halfway(u64, Vec<u8>, i32),
    /// integer part followed by nines through (and `extra` beyond) the format's decimals, then a digit
    NextInteger(u64, u8, u8),
    Simple(usize),
}

const SIMPLE: [f64; 28] = [
    0.0, -0.0, 1.0, 0.5, 0.1, 0.2, 0.3, 10.0, 100.0, 1000.0, 999.0, 1234.0, 1234567.0, 0.001, 0.01, 12.0, 0.25, 0.75,
    123456789.0, 1e15, 1e16, 9007199254740992.0, 0.30000000000000004, 1e-7, 5e-324, 1.7976931348623157e308, 0.07, 99.0,
];

fn digits_to_f64(int: &str, frac: &str, exp: i32) -> f64 {
    let s = format!("{}.{}e{}", if int.is_empty() { "0" } else { int }, if frac.is_empty() { "0" } else { frac }, exp);
    s.parse::<f64>().unwrap_or(0.0)
}

fn recipe_value(r: &Recipe, prec_scaled: i32) -> (f64, &'static str) {
    match r {
        Recipe::Bits(b) => {
            let x = f64::from_bits(*b);
            (if x.is_finite() { x } else { f64::from_bits(*b & !(1u64 << 62)) }, "bits")
        }
        Recipe::Decimal(d, e) => {
            let s: String = d.iter().map(|c| (b'0' + c) as char).collect();
            (digits_to_f64(&s[..1], &s[1..], *e), "decimal")
        }
        Recipe::NearBig(which, k) => {
            let base: f64 = match which % 6 {
                0 => 9007199254740992.0,
                1 => 1e15,
                2 => 1e14,
                3 => 4503599627370496.0,
                4 => 1e16,
                _ => 1e12,
            };
            (base + *k as f64, "near-big")
        }
        Recipe::Extreme(d, e) => {
            let s: String = d.iter().map(|c| (b'0' + c) as char).collect();
            (digits_to_f64(&s[..1], &s[1..], *e), "extreme")
        }
        Recipe::Halfway(int, kept, delta) => {
            // decimals shown for the *unscaled* value: prec_scaled (already includes the percent shift)
            let places = (prec_scaled + delta).max(0) as usize;
            let mut frac: String = kept.iter().cycle().take(places).map(|c| (b'0' + c) as char).collect();
            frac.push('5');
            (digits_to_f64(&int.to_string(), &frac, 0), "halfway")
        }
        Recipe::NextInteger(int, extra, last) => {
            let places = prec_scaled.max(0) as usize + *extra as usize;
            let mut frac: String = std::iter::repeat('9').take(places).collect();
            frac.push((b'0' + last % 10) as char);
            (digits_to_f64(&int.to_string(), &frac, 0), "next-integer")
        }
        Recipe::Simple(i) => (SIMPLE[*i % SIMPLE.len()], "simple"),
    }
}

fn recipe_strategy() -> impl Strategy<Value = Recipe> {
    let digs = |n: std::ops::RangeInclusive<usize>| {
        (1u8..=9, prop::collection::vec(0u8..=9, (*n.start() - 1)..=(*n.end() - 1))).prop_map(|(f, mut v)| {
            v.insert(0, f);
            v
        })
    };
    let int_part = prop_oneof![3 => 0u64..=9, 3 => 0u64..=9999, 1 => 0u64..=99_999_999];
    let int_part2 = prop_oneof![3 => 0u64..=9, 3 => 0u64..=9999, 1 => 0u64..=99_999_999];
    prop_oneof![
        3 => any::<u64>().prop_map(Recipe::Bits),
        6 => (digs(1..=17), -8i32..=12).prop_map(|(d, e)| Recipe::Decimal(d, e)),
        4 => (digs(1..=6), -3i32..=6).prop_map(|(d, e)| Recipe::Decimal(d, e)),
        1 => (any::<u8>(), -40i32..=40).prop_map(|(w, k)| Recipe::NearBig(w, k)),
        1 => (digs(1..=17), prop_oneof![-323i32..=-9, 13i32..=308]).prop_map(|(d, e)| Recipe::Extreme(d, e)),
        3 => (int_part, prop::collection::vec(0u8..=9, 1..=4), prop_oneof![4 => Just(0i32), 1 => Just(-1i32), 1 => Just(1i32), 1 => -3i32..=3]).prop_map(|(i, k, d)| Recipe::Halfway(i, k, d)),
        2 => (int_part2, 0u8..=2, 0u8..=9).prop_map(|(i, e, l)| Recipe::NextInteger(i, e, l)),
        1 => (0usize..SIMPLE.len()).prop_map(Recipe::Simple),
    ]
}

pub fn case_strategy(profile: FmtProfile, locales: Vec<String>) -> impl Strategy<Value = Case> {
    (prop::sample::select(locales), fmt_strategy(profile), recipe_strategy(), prop::bool::weighted(0.3)).prop_map(|(locale, fmt, recipe, neg)| {
        // the section a non-negative / negative value would use
        let sec = if neg && fmt.sections.len() == 2 { &fmt.sections[1] } else { &fmt.sections[0] };
        let prec_scaled = sec.prec() as i32 + 2 * sec.percent();
        let (mut x, source) = recipe_value(&recipe, prec_scaled);
        if !matches!(recipe, Recipe::Bits(_)) && neg {
            x = -x;
        }
        Case::new(&locale, x, fmt, source)
    })
}

// ------------------------------------------------------------------------------------------------
// Differential: the reference's rounding against the engine's own ROUND / TEXT (through a Model)
// ------------------------------------------------------------------------------------------------

#[derive(Clone, Debug, Serialize, Deserialize)]
pub struct Batch {
    /// values printed with `{:e}`
    pub values: Vec<String>,
    pub decimals: usize,
}

fn num_literal(x: f64) -> String {
    // a formula literal the engine's parser reads back as exactly x (17 significant digits)
    format!("{:.16e}", x).replace('e', "E")
}

/// For every value that is neither a tie nor in an avoided class: `=TEXT(x,"0.00..")` inside a
/// model equals the reference text, and `=ROUND(x,d)` equals the reference's rounded decimal to
/// 15 significant digits.
pub fn check_batch(avoid: ClassSet, b: &Batch) -> Outcome {
    let mut o = Outcome::pass();
    let sym = symbols("en").expect("en");
    let frac: String = std::iter::repeat('0').take(b.decimals).collect();
    let fmt = Fmt { sections: vec![Section { prefix: vec![], int: "0".into(), group: false, frac, exp: None, suffix: vec![] }] };
    let code = fmt.render();
    let mut rows: Vec<(f64, Reference)> = vec![];
    for v in &b.values {
        let Some(x) = v.parse::<f64>().ok().filter(|x| x.is_finite() && x.abs() < 1e15 && (x.abs() > 1e-9 || *x == 0.0)) else {
            continue;
        };
        let Some(r) = reference(x, &fmt, &sym) else { continue };
        // ties are left out: ROUND multiplies the reduced value by 10^d in binary, which is
        // not exact decimal arithmetic (ROUND(1.005,2) = 1); every avoided class as well
        if r.info.tie || input_classes(&fmt, &r).intersects(avoid) {
            o.excluded += 1;
            continue;
        }
        rows.push((x, r));
    }
    if rows.is_empty() {
        return o.label("batch:empty");
    }
    let res = panics::catch(|| -> Result<Option<(String, String)>, String> {
        let mut m = Model::new_empty("c20", "en", "UTC", "en")?;
        for (i, (x, _)) in rows.iter().enumerate() {
            let row = i as i32 + 1;
            m.set_user_input(0, row, 1, format!("={}", num_literal(*x)))?;
            m.set_user_input(0, row, 2, format!("=TEXT(A{row},\"{code}\")"))?;
            m.set_user_input(0, row, 3, format!("=ROUND(A{row},{})", b.decimals))?;
        }
        m.evaluate();
        for (i, (x, r)) in rows.iter().enumerate() {
            let row = i as i32 + 1;
            let a = m.get_cell_value_by_index(0, row, 1)?;
            if a != ironcalc_base::cell::CellValue::Number(*x) {
                // the literal did not arrive as the same double: not this property's business
                continue;
            }
            let t = m.get_cell_value_by_index(0, row, 2)?;
            let want = &r.texts;
            match &t {
                ironcalc_base::cell::CellValue::String(s) if want.iter().any(|w| w == s) => {}
                other => {
                    return Ok(Some((
                        "TEXT".to_string(),
                        format!("=TEXT({x:e},\"{code}\") gives {other:?}; reference {want:?}"),
                    )))
                }
            }
            let rv = m.get_cell_value_by_index(0, row, 3)?;
            let refval: f64 = r.texts[0].parse::<f64>().map_err(|e| format!("reference text {:?}: {e}", r.texts[0]))?;
            match rv {
                ironcalc_base::cell::CellValue::Number(n) if format!("{:.14e}", n) == format!("{:.14e}", refval) || (n == 0.0 && refval == 0.0) => {}
                other => {
                    return Ok(Some((
                        "ROUND".to_string(),
                        format!("=ROUND({x:e},{}) gives {other:?}; reference rounding {refval:e}", b.decimals),
                    )))
                }
            }
        }
        Ok(None)
    });
    o = o.nontrivial(format!("batch:{}:{}:{}", b.decimals, rows.len(), b.values.first().cloned().unwrap_or_default()));
    match res {
        Ok(Ok(None)) => o.label("batch:ok"),
        Ok(Ok(Some((which, detail)))) => o.fail(format!("C20:differential:{which}-disagrees-with-reference"), detail),
        Ok(Err(e)) => o.fail("C20:differential:model-error", e),
        Err(p) => o.fail(format!("C20:differential:{}", p.class()), p.describe()),
    }
}

fn batch_strategy() -> impl Strategy<Value = Batch> {
    (0usize..=6, prop::collection::vec((recipe_strategy(), any::<bool>()), 20..=60)).prop_map(|(decimals, rs)| Batch {
        values: rs
            .iter()
            .map(|(r, neg)| {
                let (x, _) = recipe_value(r, decimals as i32);
                format!("{:e}", if *neg { -x } else { x })
            })
            .collect(),
        decimals,
    })
}

// ------------------------------------------------------------------------------------------------
// Entry points
// ------------------------------------------------------------------------------------------------

fn enc(c: &Case) -> Value {
    serde_json::to_value(c).unwrap_or(Value::Null)
}

pub fn run(ctx: &Ctx) {
    ctx.set_rule(
        "Pairs (double, format) in every supported locale. Doubles: uniform bit patterns, decimal numerals \
         with 1..17 digits, integers around 2^52/2^53/10^12..10^16, tiny/huge magnitudes, halfway cases placed \
         at (and around) the decimal place the generated format rounds at, values of the form n.99..9d that \
         round up into the next integer, a list of simple values; 30% negative. Formats: generated as a \
         structure (1 or 2 sections; prefix/suffix literals bare, quoted or escaped; integer placeholders \
         w*0* and fraction placeholders 0*w* with w one of # ?; optional grouping; optional % (up to 2); \
         optional exponent E+/E- with 1..3 zeros) and rendered to a format code. Non-trivial: the 15-digit \
         decimal of the (percent-scaled) value has a non-zero digit the format does not keep; distinct by \
         (locale, value, format code).",
    );
    ctx.assume("out of the generated family (Excel semantics not asserted): colours, conditions, currency/locale brackets, `_x` and `*x`, `@`, `General`, fractions `?/?`, scaling commas after the last placeholder, literals between digit placeholders, mixed `#`/`?` or non-canonical placeholder orders (e.g. `0#`), `?` with grouping, `#`/`?` in the exponent, a decimal point without fraction placeholders (`0.`), formats without integer placeholder (`.00`), more than two sections");
    ctx.assume("a negative value whose rounded magnitude is zero (single section): both `-0.00` (Excel) and `0.00` are accepted");
    ctx.assume("percent: the value may be scaled by 100 before or after the reduction to 15 significant digits (both results accepted)");
    ctx.assume("pairs whose percent-scaled value, or its 15-digit decimal (f64::MAX rounds up), is not a finite double are outside the domain");
    ctx.assume("locales whose standard grouping is not by thousands are not checked with grouping formats");
    let avoid = avoided_classes(ctx);
    ctx.note(format!("classes avoided in the main campaign (listed findings): {:?}", avoid.names()));
    let locales = config::locales();
    ctx.note(format!("locales: {}", locales.join(",")));
    let n = ctx.tier.pick(400_000u64, 12_000_000u64);
    let l1 = locales.clone();
    ctx.campaign("main", n, move || case_strategy(FmtProfile::Main, l1.clone()), move |c| check(avoid, c), enc);
    let l2 = locales.clone();
    ctx.campaign(
        "unrestricted",
        ctx.tier.pick(40_000u64, 800_000u64),
        move || case_strategy(FmtProfile::Main, l2.clone()),
        |c| check(ClassSet::default(), c),
        enc,
    );
    let l3 = locales.clone();
    ctx.campaign(
        "engineering",
        ctx.tier.pick(4_000u64, 80_000u64),
        move || case_strategy(FmtProfile::Engineering, l3.clone()),
        |c| check(ClassSet::default(), c),
        enc,
    );
    ctx.campaign(
        "differential",
        ctx.tier.pick(300u64, 6_000u64),
        batch_strategy,
        move |b| check_batch(avoid, b),
        |b| serde_json::to_value(b).unwrap_or(Value::Null),
    );
}

pub fn replay(_ctx: &Ctx, campaign: &str, case: &Value) -> Result<Outcome, String> {
    match campaign {
        "differential" => {
            let b: Batch = serde_json::from_value(case.clone()).map_err(|e| e.to_string())?;
            Ok(check_batch(ClassSet::default(), &b))
        }
        _ => {
            let c: Case = serde_json::from_value(case.clone()).map_err(|e| e.to_string())?;
            if c.x().is_none() {
                return Err(format!("value {:?} is not a finite double", c.value));
            }
            for s in &c.format.sections {
                s.well_formed()?;
            }
            Ok(check(ClassSet::default(), &c))
        }
    }
}
