//! C02 — Redo re-applies exactly what undo removed.
//!
//! R-hist: a list of snapshots and a cursor. Undo/redo move the cursor; a new recording op
//! truncates the list after the cursor and appends. After every step the observable snapshot must
//! equal list[cursor], can_undo/can_redo and the stack lengths (hook H2) must match the cursor.
//! An *undo* step that disagrees is C01's business (label blocked-by-C01, case ends); redo,
//! truncation and flag mismatches are C02 failures.

use proptest::prelude::*;
use serde::{Deserialize, Serialize};
use serde_json::Value;

use crate::engine::ops::{self, Applied, Op, Profile};
use crate::engine::snapshot::{self, SnapOpts, Snapshot};
use crate::engine::{Ctx, Outcome, Tier};

#[derive(Clone, Debug, Serialize, Deserialize)]
pub struct Case {
    pub locale: String,
    pub language: String,
    pub profile: Profile,
    pub ops: Vec<Op>,
}

fn walk_strategy(prefix: usize, walk: usize, profile: Profile) -> impl Strategy<Value = Vec<Op>> {
    let rec = move || {
        prop_oneof![
            9 => ops::recording_op(profile),
            1 => ops::context_op().prop_filter("language fixed; evaluation not paused", |o| {
                !matches!(o, Op::SetLanguage(_) | Op::Pause | Op::Resume)
            }),
        ]
    };
    (
        prop::collection::vec(rec(), 1..=prefix),
        prop::collection::vec(
            prop_oneof![4 => Just(Op::Undo), 4 => Just(Op::Redo), 2 => rec()],
            1..=walk,
        ),
    )
        .prop_map(|(mut a, b)| {
            a.extend(b);
            a
        })
}

pub fn case_strategy(prefix: usize, walk: usize, profile: Profile) -> BoxedStrategy<Case> {
    if profile == Profile::Full {
        return (super::c01::config_strategy(), walk_strategy(prefix, walk, profile))
            .prop_map(move |((locale, language), ops)| Case { locale, language, profile, ops })
            .boxed();
    }
    (any::<bool>(), walk_strategy(prefix, walk, profile))
        .prop_map(move |(rich, ops)| {
            let mut all = if rich { ops::rich_setup(profile) } else { vec![] };
            all.extend(ops);
            Case { locale: "en".into(), language: "en".into(), profile, ops: all }
        })
        .boxed()
}

fn snap(um: &ironcalc_base::UserModel<'static>) -> Snapshot {
    snapshot::snapshot(um.get_model(), SnapOpts::default())
}

pub fn check(case: &Case) -> Outcome {
    let mut o = Outcome::pass();
    let mut um = ops::new_user_model(&case.locale, &case.language);
    let mut list: Vec<Snapshot> = vec![snap(&um)];
    let mut kinds: Vec<String> = vec!["<initial>".into()];
    let mut cursor = 0usize;
    let mut undos_in_a_row = 0usize;
    let mut nontrivial = false;
    let mut named_style_applied = false;
    for (step, op) in case.ops.iter().enumerate() {
        match op {
            Op::Undo => {
                let res = ops::apply(&mut um, op);
                if let Applied::Panic(p) = &res {
                    return o.label(format!("blocked-by-C01:undo-panicked:{}", p.class()));
                }
                if let Applied::Err(_) = &res {
                    return o.label("blocked-by-C01:undo-returned-error");
                }
                let undone = if cursor > 0 { kinds[cursor].clone() } else { "<nothing>".to_string() };
                if cursor > 0 {
                    cursor -= 1;
                    undos_in_a_row += 1;
                }
                let s = snap(&um);
                if s != list[cursor] {
                    return o.label(format!("blocked-by-C01:undo({undone})"));
                }
            }
            Op::Redo => {
                let can = cursor + 1 < list.len();
                let res = ops::apply(&mut um, op);
                let redone = if can { kinds[cursor + 1].clone() } else { "<nothing>".into() };
                match &res {
                    Applied::Panic(p) => {
                        return o.fail(
                            format!("C02:redo({redone}):{}", p.class()),
                            format!("step {step}: redo panicked: {}", p.describe()),
                        )
                    }
                    Applied::Err(e) => {
                        return o.fail(
                            format!("C02:redo({redone}):returns-error"),
                            format!("step {step}: redo of {redone} returned Err({e})"),
                        )
                    }
                    _ => {}
                }
                if can {
                    cursor += 1;
                    if undos_in_a_row >= 2 {
                        nontrivial = true;
                    }
                }
                undos_in_a_row = 0;
                let s = snap(&um);
                if s != list[cursor] {
                    let d = snapshot::diff(&list[cursor], &s);
                    return o.fail(
                        format!("C02:redo({redone}):{}", snapshot::aspects(&d).join(",")),
                        format!(
                            "step {step}: redo of {redone} does not reproduce the state that followed the original operation:\n{}",
                            snapshot::describe(&d, "after-op", "after-redo", 12)
                        ),
                    );
                }
            }
            _ => {
                if let Some(reason) = ops::guard(&um, op, case.profile) {
                    o.excluded += 1;
                    o = o.label(format!("guard-skipped:{reason}"));
                    continue;
                }
                // listed finding (C01 undo(NamedStyleUpdate)): undo of a style change re-applies
                // explicit formatting, the cell loses its link to the named style and a later redo
                // links it again; the run-time guard above only sees the links of the moment
                if case.profile != Profile::Full && matches!(op, Op::NamedStyleUpdate { .. }) && named_style_applied {
                    o.excluded += 1;
                    o = o.label("guard-skipped:named-style-update-after-apply");
                    continue;
                }
                if matches!(op, Op::NamedStyleApply { .. }) {
                    named_style_applied = true;
                }
                let before = um.verif_history_len();
                let res = ops::apply(&mut um, op);
                match &res {
                    Applied::Panic(p) => {
                        return o.label(format!("op-panicked:{}:{}", op.kind(), p.class()));
                    }
                    Applied::Err(_) => {
                        let after = um.verif_history_len();
                        if after != before || snap(&um) != list[cursor] {
                            return o.label(format!("tainted-by-failed-op:{}", op.kind()));
                        }
                    }
                    _ => {
                        let after = um.verif_history_len();
                        if after.0 == before.0 + 1 {
                            // a new operation discards everything after the cursor
                            if cursor + 1 < list.len() {
                                nontrivial = true;
                            }
                            list.truncate(cursor + 1);
                            kinds.truncate(cursor + 1);
                            list.push(snap(&um));
                            kinds.push(op.kind().to_string());
                            cursor += 1;
                            undos_in_a_row = 0;
                            o = o.label(format!("recorded:{}", op.kind()));
                        } else if after.0 == before.0 {
                            if snap(&um) != list[cursor] {
                                return o.label(format!("unrecorded-change:{}", op.kind()));
                            }
                            if after.1 != before.1 {
                                return o.fail(
                                    format!("C02:redo-list-discarded-by-unrecorded-op({})", op.kind()),
                                    format!("step {step}: {op:?} recorded nothing but changed the redo stack {} -> {}", before.1, after.1),
                                );
                            }
                        } else {
                            return o.label(format!("history-jump:{}", op.kind()));
                        }
                    }
                }
            }
        }
        // cursor invariants after every step
        let (u, r) = um.verif_history_len();
        let exp = (cursor, list.len() - 1 - cursor);
        if (u, r) != exp || um.can_undo() != (cursor > 0) || um.can_redo() != (cursor + 1 < list.len()) {
            return o.fail(
                format!("C02:cursor({})", op.kind()),
                format!(
                    "step {step} ({op:?}): stacks ({u},{r}) can_undo={} can_redo={}, model expects stacks {exp:?}",
                    um.can_undo(),
                    um.can_redo()
                ),
            );
        }
    }
    if nontrivial {
        o = o.nontrivial(serde_json::to_string(&case).unwrap_or_default());
    }
    o
}

pub fn run(ctx: &Ctx) {
    ctx.set_rule(
        "A generated prefix of recording operations followed by a random walk over {undo 40%, redo \
         40%, new operation 20%}; reference model = list of snapshots + cursor (new op truncates \
         after the cursor). After every step: snapshot == list[cursor], can_undo/can_redo and stack \
         lengths match. Undo mismatches are attributed to C01 (label blocked-by-C01) and end the \
         case. Non-trivial: a redo executed after >=2 consecutive undos, or a new operation issued \
         after a partial undo; distinct by op list.",
    );
    ctx.assume("view state is not compared; restricted profiles (see C01) while findings are listed");
    let restricted = ctx.avoid("restricted-profiles");
    let (cases, prefix, walk) = match ctx.tier {
        Tier::Quick => (60000, 8, 15),
        Tier::Thorough => (1500000, 20, 60),
    };
    let enc = |c: &Case| serde_json::to_value(c).unwrap_or(Value::Null);
    if restricted {
        ctx.campaign("walk-edit", cases / 2, || case_strategy(prefix, walk, Profile::Edit), check, enc);
        ctx.campaign("walk-structural", cases / 2, || case_strategy(prefix, walk, Profile::Structural), check, enc);
    } else {
        ctx.campaign("walk", cases, || case_strategy(prefix, walk, Profile::Full), check, enc);
    }
}

pub fn replay(_ctx: &Ctx, _campaign: &str, case: &Value) -> Result<Outcome, String> {
    let c: Case = serde_json::from_value(case.clone()).map_err(|e| e.to_string())?;
    Ok(check(&c))
}
