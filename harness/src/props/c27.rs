//! C27 — Workbook structure stays well-formed.
//!
//! An invariant checker over `Model::workbook` runs after **every** step of generated histories
//! (full operation language incl. invalid arguments, failed operations, undo/redo, on UserModel;
//! and raw Model structural operations).

use std::collections::{HashMap, HashSet};

use ironcalc_base::types::{ArrayKind, Cell, Workbook};
use ironcalc_base::Model;
use proptest::prelude::*;
use serde::{Deserialize, Serialize};
use serde_json::Value;

use crate::engine::ops::{self, Applied, Op, Profile, LAST_COLUMN, LAST_ROW};
use crate::engine::{panics, Ctx, Outcome, Tier};

#[derive(Clone, Debug, Serialize, Deserialize)]
pub struct Case {
    pub locale: String,
    pub language: String,
    pub ops: Vec<Op>,
}

/// Returns the first violated invariant as (class, detail).
pub fn check_workbook(model: &Model) -> Option<(String, String)> {
    let wb: &Workbook = &model.workbook;
    // sheet names valid and unique ignoring case; ids unique
    let mut names = HashSet::new();
    let mut ids = HashSet::new();
    let invalid = ['\\', '/', '*', '?', ':', '[', ']'];
    for ws in &wb.worksheets {
        let n = &ws.name;
        if n.is_empty() || n.chars().count() > 31 || n.contains(&invalid[..]) {
            return Some(("sheet-name-invalid".into(), format!("sheet name {n:?}")));
        }
        if !names.insert(n.to_lowercase()) {
            return Some(("sheet-name-duplicate".into(), format!("sheet name {n:?} used twice (ignoring case)")));
        }
        if !ids.insert(ws.sheet_id) {
            return Some(("sheet-id-duplicate".into(), format!("sheet id {} used twice", ws.sheet_id)));
        }
    }
    let n_styles = wb.styles.cell_xfs.len() as i32;
    let n_strings = wb.shared_strings.len() as i32;
    for (si, ws) in wb.worksheets.iter().enumerate() {
        let n_formulas = ws.shared_formulas.len() as i32;
        if let Some(p) = model.parsed_formulas.get(si) {
            if p.len() as i32 != n_formulas {
                return Some((
                    "parsed-formulas-out-of-sync".into(),
                    format!("sheet {si}: {} stored formulas, {} parsed", n_formulas, p.len()),
                ));
            }
        } else {
            return Some(("parsed-formulas-out-of-sync".into(), format!("sheet {si}: no parsed formula table")));
        }
        // cells
        let mut anchors: HashMap<(i32, i32), ((i32, i32), bool)> = HashMap::new();
        for (&row, rd) in &ws.sheet_data {
            for (&col, cell) in rd {
                if !(1..=LAST_ROW).contains(&row) || !(1..=LAST_COLUMN).contains(&col) {
                    return Some(("cell-outside-grid".into(), format!("sheet {si} cell ({row},{col})")));
                }
                let s = cell.get_style();
                if s < 0 || s >= n_styles {
                    return Some(("style-index-dangling".into(), format!("sheet {si} cell ({row},{col}) style {s} of {n_styles}")));
                }
                match cell {
                    Cell::SharedString { si: i, .. } => {
                        if *i < 0 || *i >= n_strings {
                            return Some(("shared-string-index-dangling".into(), format!("sheet {si} cell ({row},{col}) si {i} of {n_strings}")));
                        }
                    }
                    Cell::CellFormula { f, .. } => {
                        if *f < 0 || *f >= n_formulas {
                            return Some(("formula-index-dangling".into(), format!("sheet {si} cell ({row},{col}) f {f} of {n_formulas}")));
                        }
                    }
                    Cell::ArrayFormula { f, r, kind, .. } => {
                        if *f < 0 || *f >= n_formulas {
                            return Some(("formula-index-dangling".into(), format!("sheet {si} cell ({row},{col}) f {f} of {n_formulas}")));
                        }
                        anchors.insert((row, col), (*r, matches!(kind, ArrayKind::Dynamic)));
                    }
                    _ => {}
                }
            }
        }
        // spill cells belong to an anchor whose range covers them
        let mut covered: HashMap<(i32, i32), (i32, i32)> = HashMap::new();
        for (&(ar, ac), &((w, h), _)) in &anchors {
            for r in ar..ar + h.max(1) {
                for c in ac..ac + w.max(1) {
                    if let Some(prev) = covered.insert((r, c), (ar, ac)) {
                        if prev != (ar, ac) {
                            return Some((
                                "spill-ranges-overlap".into(),
                                format!("sheet {si}: cell ({r},{c}) is in the ranges of anchors {prev:?} and {:?}", (ar, ac)),
                            ));
                        }
                    }
                }
            }
        }
        for (&row, rd) in &ws.sheet_data {
            for (&col, cell) in rd {
                if let Cell::SpillCell { a, .. } = cell {
                    match anchors.get(a) {
                        None => {
                            return Some((
                                "spill-cell-without-anchor".into(),
                                format!("sheet {si}: spill cell ({row},{col}) names anchor {a:?} which is not an array formula"),
                            ))
                        }
                        Some(((w, h), _)) => {
                            if !(row >= a.0 && row < a.0 + h && col >= a.1 && col < a.1 + w) {
                                return Some((
                                    "spill-cell-outside-anchor-range".into(),
                                    format!("sheet {si}: spill cell ({row},{col}) not covered by anchor {a:?} range ({w},{h})"),
                                ));
                            }
                        }
                    }
                }
            }
        }
        // column descriptors sorted, min <= max, disjoint, inside the grid
        let mut last_max = 0;
        for c in &ws.cols {
            if c.min > c.max {
                return Some(("column-descriptor-min-gt-max".into(), format!("sheet {si}: {c:?}")));
            }
            if c.min < 1 || c.max > LAST_COLUMN {
                return Some(("column-descriptor-outside-grid".into(), format!("sheet {si}: {c:?}")));
            }
            if c.min <= last_max {
                return Some(("column-descriptors-unsorted-or-overlapping".into(), format!("sheet {si}: {:?}", ws.cols)));
            }
            last_max = c.max;
            if let Some(s) = c.style {
                if s < 0 || s >= n_styles {
                    return Some(("style-index-dangling".into(), format!("sheet {si} column descriptor {c:?}")));
                }
            }
        }
        // row descriptors unique
        let mut rows = HashSet::new();
        for r in &ws.rows {
            if !rows.insert(r.r) {
                return Some(("row-descriptor-duplicate".into(), format!("sheet {si}: row {} has two descriptors", r.r)));
            }
            if r.s < 0 || r.s >= n_styles {
                return Some(("style-index-dangling".into(), format!("sheet {si} row descriptor {r:?}")));
            }
        }
    }
    // defined names refer to existing sheets
    for dn in &wb.defined_names {
        if let Some(id) = dn.sheet_id {
            if !ids.contains(&id) {
                return Some(("defined-name-scope-dangling".into(), format!("defined name {:?} scoped to missing sheet id {id}", dn.name)));
            }
        }
    }
    None
}

fn invalid_op() -> BoxedStrategy<Op> {
    let table = super::c04::table();
    let n = table.len();
    (0..n).prop_map(move |i| table[i].op.clone()).boxed()
}

fn strategy(len: usize, no_cse: bool) -> BoxedStrategy<Case> {
    let ops = prop::collection::vec(
        prop_oneof![
            14 => ops::recording_op(Profile::Full),
            1 => ops::context_op().prop_filter("language fixed per case", |o| !matches!(o, Op::SetLanguage(_))),
            2 => invalid_op(),
            2 => Just(Op::Undo),
            1 => Just(Op::Redo),
        ],
        1..=len,
    );
    (super::c01::config_strategy(), ops)
        .prop_map(move |((locale, language), mut ops)| {
            if no_cse {
                // listed findings: CSE array formulas are not protected against being overlapped by
                // another array formula, and structural edits re-type them as plain formulas
                ops.retain(|o| !matches!(o, Op::ArrayFormula { .. }));
            }
            Case { locale, language, ops }
        })
        .boxed()
}

pub fn check(case: &Case) -> Outcome {
    check_with(case, Avoid::default())
}

/// Run-time guards for root causes listed under C01 / C31 (each counted when it fires).
#[derive(Clone, Copy, Default)]
pub struct Avoid {
    /// end the history before an undo of a row/column deletion whose band some formula read
    pub undo_delete: bool,
    /// skip a copy / cut whose source contains a spill cell
    pub paste_spill: bool,
    /// skip a paste whose target contains a spill cell
    pub paste_onto_spill: bool,
    /// skip a cut while some array formula holds an array literal (listed under C16: a cut
    /// re-prints every formula of the workbook, array literals come out malformed and the array
    /// formula turns into a plain parse-error formula)
    pub cut_with_array_literal: bool,
}

/// `avoid_undo_delete`: end the history before an undo of a row/column deletion whose band some
/// formula read (listed under C01 / C31: the undo leaves `#REF!` behind, and with it spill cells
/// of an anchor that no longer spills).
pub fn check_with(case: &Case, avoid: Avoid) -> Outcome {
    let avoid_undo_delete = avoid.undo_delete;
    let mut o = Outcome::pass();
    let mut um = ops::new_user_model(&case.locale, &case.language);
    let mut structural = false;
    let mut spill = false;
    // per history entry: was it a deletion of a band some formula read?
    let mut undo_stack: Vec<bool> = vec![];
    let mut redo_stack: Vec<bool> = vec![];
    for (i, op) in case.ops.iter().enumerate() {
        let band_referenced = match op {
            Op::DeleteRows { s, row, n } => crate::engine::nodes::any_formula_reads_rows(um.get_model(), ops::res_sheet(&um, *s), *row, *n),
            Op::DeleteCols { s, col, n } => crate::engine::nodes::any_formula_reads_columns(um.get_model(), ops::res_sheet(&um, *s), *col, *n),
            // (same listed entry: a clear records the spill cells it clears as old values)
            Op::ClearContents(a) | Op::ClearAll(a) => um
                .get_model()
                .workbook
                .worksheets
                .get(ops::res_sheet(&um, a.s) as usize)
                .map(|ws| (a.row..a.row + a.h).any(|r| (a.col..a.col + a.w).any(|c| matches!(ws.cell(r, c), Some(Cell::SpillCell { .. })))))
                .unwrap_or(false),
            _ => false,
        };
        if avoid_undo_delete && matches!(op, Op::Undo) && undo_stack.last().copied().unwrap_or(false) {
            o.excluded += 1;
            o = o.label("ended:undo-of-deletion-of-referenced-band");
            break;
        }
        if let Op::CopyPaste { cut: true, .. } = op {
            if avoid.cut_with_array_literal {
                let m = um.get_model();
                let mut literal = false;
                for (si, ws) in m.workbook.worksheets.iter().enumerate() {
                    for (r, rd) in &ws.sheet_data {
                        for (c, cell) in rd {
                            if matches!(cell, Cell::ArrayFormula { .. }) && m.get_cell_formula(si as u32, *r, *c).ok().flatten().map(|f| f.contains('{')).unwrap_or(false) {
                                literal = true;
                            }
                        }
                    }
                }
                if literal {
                    o.excluded += 1;
                    o = o.label("guard-skipped:cut-while-an-array-literal-exists");
                    continue;
                }
            }
        }
        if let Op::CopyPaste { src, ts, trow, tcol, .. } = op {
            let has_spill = |sheet: u32, r1: i32, c1: i32, h: i32, w: i32| -> bool {
                um.get_model()
                    .workbook
                    .worksheets
                    .get(sheet as usize)
                    .map(|ws| (r1..r1 + h).any(|r| (c1..c1 + w).any(|c| matches!(ws.cell(r, c), Some(Cell::SpillCell { .. })))))
                    .unwrap_or(false)
            };
            if avoid.paste_spill && has_spill(ops::res_sheet(&um, src.s), src.row, src.col, src.h, src.w) {
                o.excluded += 1;
                o = o.label("guard-skipped:paste-of-a-spill-cell");
                continue;
            }
            if avoid.paste_onto_spill && has_spill(ops::res_sheet(&um, *ts), *trow, *tcol, src.h, src.w) {
                o.excluded += 1;
                o = o.label("guard-skipped:paste-onto-a-spill-cell");
                continue;
            }
        }
        // auto-fill records the cells it overwrites the same way a paste does (old spill cells
        // become undo values): same listed root cause, other entry point
        let fill_region = match op {
            Op::AutofillRows { a, to_row } => Some((a.s, a.row.min(*to_row), a.col, (a.row + a.h - 1).max(*to_row), a.col + a.w - 1)),
            Op::AutofillCols { a, to_col } => Some((a.s, a.row, a.col.min(*to_col), a.row + a.h - 1, (a.col + a.w - 1).max(*to_col))),
            _ => None,
        };
        if let Some((s, r1, c1, r2, c2)) = fill_region {
            let sheet = ops::res_sheet(&um, s);
            let spill = um
                .get_model()
                .workbook
                .worksheets
                .get(sheet as usize)
                .map(|ws| (r1..=r2).any(|r| (c1..=c2).any(|c| matches!(ws.cell(r, c), Some(Cell::SpillCell { .. })))))
                .unwrap_or(false);
            if (avoid.paste_spill || avoid.paste_onto_spill) && spill {
                o.excluded += 1;
                o = o.label("guard-skipped:autofill-over-a-spill-cell");
                continue;
            }
        }
        let hist_before = um.verif_history_len();
        let res = ops::apply(&mut um, op);
        let hist_after = um.verif_history_len();
        match op {
            Op::Undo if hist_after.0 + 1 == hist_before.0 => {
                if let Some(x) = undo_stack.pop() {
                    redo_stack.push(x);
                }
            }
            Op::Redo if hist_after.0 == hist_before.0 + 1 => {
                if let Some(x) = redo_stack.pop() {
                    undo_stack.push(x);
                }
            }
            _ if hist_after.0 == hist_before.0 + 1 => {
                undo_stack.push(band_referenced);
                redo_stack.clear();
            }
            _ => {}
        }
        if let Applied::Panic(p) = &res {
            // the model may be in any state after a panic: the case ends (labelled)
            return o.label(format!("op-panicked:{}:{}", op.kind(), p.class()));
        }
        if res.is_ok() && (op.is_structural() || op.is_sheet_op()) {
            structural = true;
        }
        let model = um.get_model();
        match panics::catch(|| check_workbook(model)) {
            Err(p) => return o.fail(format!("C27:checker:{}", p.class()), p.describe()),
            Ok(Some((class, detail))) => {
                let how = match res {
                    Applied::Err(_) => "failed-",
                    _ => "",
                };
                let sig = if class == "defined-name-scope-dangling" {
                    // one root cause whatever operation removes the sheet (delete, undo of new /
                    // duplicate sheet, redo of delete)
                    format!("C27:{class}")
                } else {
                    format!("C27:{class}:after-{how}{}", op.kind())
                };
                return o.fail(
                    sig,
                    format!("after step {i} ({op:?} -> {}): {detail}", if res.is_ok() { "Ok" } else { "Err" }),
                );
            }
            Ok(None) => {}
        }
        if !spill {
            spill = model.workbook.worksheets.iter().any(|w| {
                w.sheet_data.values().any(|rd| rd.values().any(|c| matches!(c, Cell::SpillCell { .. })))
            });
        }
    }
    if structural && spill {
        o = o.nontrivial(serde_json::to_string(case).unwrap_or_default());
    }
    o
}

pub fn run(ctx: &Ctx) {
    ctx.set_rule(
        "Generated histories over the full UserModel operation language (valid arguments from small \
         interacting domains, invalid arguments from C04's table, undo, redo; generated \
         locale/language); the structural invariants of the property statement are checked on \
         Model::workbook after every step, including failed ones. Non-trivial: the history contains \
         >=1 successful structural edit or sheet operation and a spill cell existed at some step; \
         distinct by case.",
    );
    ctx.assume("after an operation panics the case ends (labelled): no invariant is asserted on a model that unwound mid-operation");
    let (cases, len) = match ctx.tier {
        Tier::Quick => (600000, 14),
        Tier::Thorough => (3000000, 40),
    };
    let no_cse = ctx.avoid("c27-cse-arrays");
    let avoid = Avoid {
        undo_delete: ctx.avoid("c31-undo-of-deletion-of-referenced-band"),
        paste_spill: ctx.avoid("c31-paste-of-a-spill-cell"),
        paste_onto_spill: ctx.avoid("c31-paste-onto-a-spill-cell"),
        cut_with_array_literal: ctx.avoid("c16-moved:arrays"),
    };
    ctx.campaign("histories", cases, || strategy(len, no_cse), move |c: &Case| check_with(c, avoid), |c| serde_json::to_value(c).unwrap_or(Value::Null));
}

pub fn replay(_ctx: &Ctx, _campaign: &str, case: &Value) -> Result<Outcome, String> {
    let c: Case = serde_json::from_value(case.clone()).map_err(|e| e.to_string())?;
    Ok(check(&c))
}
