//! C14 — Inserting then deleting the same rows or columns is the identity.
//!
//! Workbooks as for C12 (`props/geom.rs`) with row descriptors and multi-column column
//! descriptors written directly into `worksheet.cols` (as imported files have them). The
//! observable snapshot (`engine/snapshot.rs`: content, typed value, formatted text, resolved
//! style, array structure, links, row heights / hidden flags / styles, run-length normalised
//! column widths / hidden flags / styles, defined names) after `insert k at p; delete k at p`
//! must equal the snapshot before. Precondition decided by R-geom beforehand: the insertion
//! pushes no reference leaf (and no stored cell) off the grid.

use proptest::prelude::*;
use serde::{Deserialize, Serialize};
use serde_json::Value;

use super::geom::{self, Axis, EditCase, GenCfg, Kind, Ran};
use crate::engine::panics;
use crate::engine::snapshot::{self, SnapOpts};
use crate::engine::{Ctx, Outcome, Tier};

#[derive(Clone, Debug, Serialize, Deserialize)]
pub struct Case {
    #[serde(flatten)]
    pub edit: EditCase,
    /// `Model` API only: call `evaluate` between the insertion and the deletion
    #[serde(default)]
    pub eval_between: bool,
}

const RETYPE_CLASSES: [&str; 4] = ["quote-prefixed-text", "number-beyond-15-digits", "cse-array", "url-text"];

/// "sheet[0].cell(3,2).content" -> (0, 3, 2); also link keys
fn cell_of_key(key: &str) -> Option<(u32, i32, i32)> {
    let rest = key.strip_prefix("sheet[")?;
    let (s, rest) = rest.split_once(']')?;
    let rest = rest.strip_prefix(".cell(").or_else(|| rest.strip_prefix(".link("))?;
    let (rc, _) = rest.split_once(')')?;
    let (r, c) = rc.split_once(',')?;
    Some((s.parse().ok()?, r.parse().ok()?, c.parse().ok()?))
}

pub fn check(case: &Case) -> Outcome {
    let mut o = Outcome::pass();
    let ec = &case.edit;
    let ins = ec.edit(Kind::Insert);
    let del = ins.undoing_delete();
    let (book, excluded) = geom::steer(&ec.book, &ec.avoid, &[]);
    o.excluded += excluded;
    o = o.label(format!("api:{}", if ec.user_api { "UserModel" } else if case.eval_between { "Model+evaluate-between" } else { "Model" }));
    o = o.label(format!("axis:{}", ins.axis.name()));
    let keep = |_: &geom::CellSpec| true;
    let mut before = match panics::catch(|| geom::build(&book, &keep)) {
        Ok(Ok(b)) => b.model,
        Ok(Err(e)) => return o.label(format!("build-refused:{}", e.chars().take(40).collect::<String>())),
        Err(p) => return o.label(format!("build-panicked:{}", p.class())),
    };
    let mut work = match panics::catch(|| geom::build(&book, &keep)) {
        Ok(Ok(b)) => b.model,
        _ => return o.label("build-not-repeatable"),
    };
    if ec.avoids(geom::SW_CLEARS_LINK) {
        for (s, r, c) in geom::shadowed_links(&before, &[ins, del]) {
            let _ = before.delete_cell_link(s, r, c);
            let _ = work.delete_cell_link(s, r, c);
            o.excluded += 1;
        }
    }
    // precondition (R-geom): no reference leaf is pushed past the last row / column
    let last = ins.axis.last();
    let infos = geom::formula_infos(&before, &[]);
    let pushed = infos.iter().any(|f| {
        f.reads.iter().any(|a| {
            let (i1, i2) = match ins.axis {
                Axis::Rows => (a.r1, a.r2),
                Axis::Cols => (a.c1, a.c2),
            };
            a.sheet == ins.sheet && i2 >= ins.at && i2 + ins.n > last && !(i1 == 1 && i2 == last)
        })
    });
    if pushed {
        o.excluded += 1;
        return o.label("precondition:reference-would-be-pushed-off-grid");
    }
    if ec.avoids(geom::SW_STALE_SPILL) {
        // a range that grows with the insertion shrinks again with the deletion
        let grows = |a: &geom::Area| {
            let (i1, i2) = match ins.axis {
                Axis::Rows => (a.r1, a.r2),
                Axis::Cols => (a.c1, a.c2),
            };
            i1 < ins.at && ins.at <= i2
        };
        if geom::shrinking_foreign_spills(&infos, &grows, ins.sheet) {
            o.excluded += 1;
            return o.label("steered:dynamic-array-on-other-sheet-would-shrink");
        }
    }
    let used = geom::max_used(&before, ins.sheet, ins.axis);
    let content_off = used + ins.n > last;
    let has_cse = geom::formula_infos(&before, &[]).iter().any(|f| f.cse.is_some());
    let refused = |o: Outcome, which: &geom::Edit, msg: String| {
        if content_off {
            return o.label("refused:content-at-grid-edge");
        }
        if has_cse && msg.contains("array formula") {
            return o.label("refused:would-split-array");
        }
        o.fail(
            format!("C14:permitted-edit-refused:{}", ins.axis.name()),
            format!("{} returned Err({msg}) although nothing is pushed off the grid", which.describe()),
        )
    };
    let mut mid = match geom::run_edit(geom::Held::start(work, ec.user_api), &ins, case.eval_between) {
        Ran::Ok(h) => h,
        Ran::Panicked(p) => return o.fail(format!("C14:{}", p.class()), format!("{} panicked: {}", ins.describe(), p.describe())),
        Ran::Refused(msg) => return refused(o, &ins, msg),
    };
    // links the deletion is known to drop (shadowed in the intermediate state), in old coordinates
    let mut shadowed_mid: Vec<(u32, i32, i32)> = vec![];
    for (s, r, c) in geom::shadowed_links(mid.model(), &[del]) {
        if let Some((pr, pc)) = ins.preimage(s, r, c) {
            shadowed_mid.push((s, pr, pc));
            if ec.avoids(geom::SW_CLEARS_LINK) {
                mid.delete_link(s, r, c);
                let _ = before.delete_cell_link(s, pr, pc);
                o.excluded += 1;
            }
        }
    }
    let held = match geom::run_edit(mid, &del, true) {
        Ran::Ok(h) => h,
        Ran::Panicked(p) => return o.fail(format!("C14:{}", p.class()), format!("{}; {} panicked: {}", ins.describe(), del.describe(), p.describe())),
        Ran::Refused(msg) => return refused(o, &del, msg),
    };
    if ec.avoids(geom::SW_COMPETING) && (geom::blocked_anchor_next_to_another(&before) || geom::blocked_anchor_next_to_another(held.model())) {
        o.excluded += 1;
        return o.label("skipped:competing-dynamic-arrays");
    }
    let mut a = snapshot::snapshot(&before, SnapOpts::default());
    let mut b = snapshot::snapshot(held.model(), SnapOpts::default());
    // values that depend on the evaluation order (reference cycles, readers of another array's
    // spill cells: listed under C01/C31) are not part of the identity claim
    let infos_n = geom::formula_infos(&before, &book.names);
    let unst = geom::unstable(&infos_n, &ins);
    if infos_n.iter().zip(&unst).any(|(f, u)| *u && f.dynamic.is_some()) {
        o.excluded += 1;
        return o.label("skipped:order-dependent-dynamic-array");
    }
    let mut masked = false;
    for (f, u) in infos_n.iter().zip(&unst) {
        if *u {
            for suffix in ["value", "formatted"] {
                let k = format!("sheet[{}].cell({},{}).{suffix}", f.sheet, f.row, f.col);
                a.remove(&k);
                b.remove(&k);
            }
            masked = true;
        }
    }
    if masked {
        o = o.label("masked:order-dependent-values");
    }
    if a != b {
        let d = snapshot::diff(&a, &b);
        // root-cause classes
        let sheets = before.workbook.worksheets.len();
        let after_m = held.model();
        // (a) stale spill cells left behind by a dynamic array that shrank
        let stale = d.iter().all(|e| match cell_of_key(&e.key) {
            Some((s, r, c)) if (s as usize) < sheets => geom::is_stale_spill(after_m, s, r, c),
            _ => false,
        });
        // (b) links dropped by a re-typed empty cell
        let mut shadowed = geom::shadowed_links(&before, &[ins, del]);
        shadowed.extend(shadowed_mid.iter().cloned());
        let cleared = d.iter().all(|e| e.key.contains(".link(") && e.b.is_none() && cell_of_key(&e.key).map(|k| shadowed.contains(&k)).unwrap_or(false));
        // (c) every difference on a cell of a re-type-sensitive class
        let mut classes: Vec<String> = vec![];
        let mut all_retype = true;
        for e in &d {
            match cell_of_key(&e.key) {
                Some((s, r, c)) if (s as usize) < sheets => {
                    let cl = geom::observed_class(&geom::observe(&before, s, r, c));
                    if RETYPE_CLASSES.contains(&cl.as_str()) {
                        if !classes.contains(&cl) {
                            classes.push(cl);
                        }
                    } else {
                        all_retype = false;
                    }
                }
                _ => all_retype = false,
            }
        }
        // (d) links created by re-typing URL-like text
        let mut url_texts: Vec<String> = vec![];
        for (si, ws) in before.workbook.worksheets.iter().enumerate() {
            for (r, rd) in &ws.sheet_data {
                for c in rd.keys() {
                    let ob = geom::observe(&before, si as u32, *r, *c);
                    if ob.kind == "text" && geom::looks_like_url(ob.content.trim_start_matches('\'')) {
                        url_texts.push(ob.content.trim_start_matches('\'').to_string());
                    }
                }
            }
        }
        let auto_links = !url_texts.is_empty()
            && d.iter().all(|e| e.key.contains(".link(") && [&e.a, &e.b].iter().any(|v| v.as_ref().map(|t| url_texts.iter().any(|u| t.contains(u.as_str()))).unwrap_or(false)));
        let sig = if stale {
            "C14:stale-spill-cell".to_string()
        } else if cleared {
            "C14:retype:empty-cell-clears-link".to_string()
        } else if auto_links {
            "C14:retype:url-text".to_string()
        } else if all_retype && !classes.is_empty() {
            classes.sort();
            format!("C14:retype:{}", classes[0])
        } else {
            format!("C14:identity:{}:{}", snapshot::aspects(&d).join(","), ins.axis.name())
        };
        return o.fail(
            sig,
            format!(
                "{}; then {}: the workbook is not what it was:\n{}",
                ins.describe(),
                del.describe(),
                snapshot::describe(&d, "before", "after", 12)
            ),
        );
    }
    // labels and non-triviality
    let sh = &book.sheets[ins.sheet as usize];
    let near_desc = match ins.axis {
        Axis::Cols => sh.cols.iter().any(|c| c.max > c.min && c.min - 1 <= ins.at && ins.at <= c.max + 1),
        Axis::Rows => sh.rows.iter().any(|r| (r.style.is_some() || r.height.is_some() || r.hidden) && r.r >= ins.at - 1 && r.r <= ins.at + ins.n),
    };
    let inside_desc = ins.axis == Axis::Cols && sh.cols.iter().any(|c| c.min < ins.at && ins.at <= c.max);
    if near_desc {
        o = o.label("band-inside-or-adjacent-to-descriptor");
    }
    if inside_desc {
        o = o.label("band-splits-multi-column-descriptor");
    }
    let mut reentry = 0;
    for c in &sh.cells {
        let cl = geom::input_class(c);
        let moves = ins.along(c.row, c.col) >= ins.at;
        if moves {
            o = o.label(format!("moved-input:{cl}"));
            if ["quote-prefixed-harmless", "url", "formatted-number", "boolean", "error", "formula", "formula-aggregate"].contains(&cl) {
                reentry += 1;
            }
        }
    }
    if near_desc && reentry > 0 {
        let key = serde_json::to_string(case).unwrap_or_default();
        o = o.nontrivial(key);
    }
    o
}

fn case_strategy(cfg: GenCfg, max_cells: usize, avoid: Vec<String>) -> impl Strategy<Value = Case> {
    (geom::edit_case_strategy(cfg, max_cells, avoid), any::<bool>()).prop_map(|(edit, eval_between)| Case { edit, eval_between })
}

pub fn run(ctx: &Ctx) {
    ctx.set_rule(
        "Generated workbooks as for C12 with 1-4 row descriptors (height / hidden / style) and 1-3 column descriptors \
         spanning 1-5 columns written directly into worksheet.cols; insert k (1-3) rows/columns at p, delete the same \
         k at p, through Model (with or without evaluate in between) or UserModel; the observable snapshot must be \
         unchanged. Cases where R-geom says a reference leaf or a stored cell would be pushed off the grid are \
         excluded (counted). Non-trivial: the band is inside or adjacent to a multi-column descriptor (columns) or a \
         row with attributes (rows) and at least one moved cell holds re-entry-sensitive content (formula, boolean, \
         error, formatted number, URL, quote-prefixed text); distinct by the whole case.",
    );
    ctx.assume("compared through engine/snapshot.rs: pool indices, descriptor layout and empty row maps are storage details and not compared");
    ctx.assume("numbers bit-exact");
    let avoid = geom::active_switches(&|s| ctx.avoid(s));
    let cases = match ctx.tier {
        Tier::Quick => 60000,
        Tier::Thorough => 1200000,
    };
    let enc = |c: &Case| serde_json::to_value(c).unwrap_or(Value::Null);
    let cfg = GenCfg { descriptors: true, edge_refs: 1, edge_cells: 0, ..GenCfg::default() };
    let av = avoid.clone();
    ctx.campaign("insert-delete", cases, move || case_strategy(cfg, 18, av.clone()), check, enc);
}

pub fn replay(_ctx: &Ctx, _campaign: &str, case: &Value) -> Result<Outcome, String> {
    let c: Case = serde_json::from_value(case.clone()).map_err(|e| e.to_string())?;
    Ok(check(&c))
}
