//! C21 — Date serial numbers and calendar dates correspond one-to-one.
//!
//! Oracle: R-date, an integer-only civil-from-days / days-from-civil (proleptic Gregorian)
//! implementation independent of chrono. Serial n <-> n days after 1899-12-30.

use ironcalc_base::cell::CellValue;
use ironcalc_base::formatter::dates::{date_to_serial_number, from_excel_date};
use ironcalc_base::formatter::format::format_number;
use ironcalc_base::locale::get_locale;
use ironcalc_base::Model;
use serde_json::{json, Value};

use crate::engine::{panics, Ctx, Outcome};

pub const MIN_SERIAL: i64 = 1;
pub const MAX_SERIAL: i64 = 2_958_465;

/// days since 1970-01-01 -> (y, m, d). Hinnant's algorithm, integer only.
pub fn civil_from_days(z: i64) -> (i64, u32, u32) {
    let z = z + 719_468;
    let era = if z >= 0 { z } else { z - 146_096 } / 146_097;
    let doe = z - era * 146_097;
    let yoe = (doe - doe / 1_460 + doe / 36_524 - doe / 146_096) / 365;
    let y = yoe + era * 400;
    let doy = doe - (365 * yoe + yoe / 4 - yoe / 100);
    let mp = (5 * doy + 2) / 153;
    let d = (doy - (153 * mp + 2) / 5 + 1) as u32;
    let m = if mp < 10 { mp + 3 } else { mp - 9 } as u32;
    (if m <= 2 { y + 1 } else { y }, m, d)
}

pub fn days_from_civil(y: i64, m: u32, d: u32) -> i64 {
    let y = if m <= 2 { y - 1 } else { y };
    let era = if y >= 0 { y } else { y - 399 } / 400;
    let yoe = y - era * 400;
    let mp = if m > 2 { m - 3 } else { m + 9 } as i64;
    let doy = (153 * mp + 2) / 5 + d as i64 - 1;
    let doe = yoe * 365 + yoe / 4 - yoe / 100 + doy;
    era * 146_097 + doe - 719_468
}

/// days since 1970-01-01 of serial 0 (1899-12-30)
fn epoch() -> i64 {
    days_from_civil(1899, 12, 30)
}

pub fn ref_date(serial: i64) -> (i64, u32, u32) {
    civil_from_days(serial + epoch())
}

/// WEEKDAY default type: Sunday = 1 .. Saturday = 7
pub fn ref_weekday(serial: i64) -> i64 {
    let z = serial + epoch();
    // 1970-01-01 was a Thursday (4 with Sunday = 0)
    (z + 4).rem_euclid(7) + 1
}

fn check_pure(serial: i64) -> Outcome {
    use chrono_like::*;
    let (y, m, d) = ref_date(serial);
    let key = serial.to_string();
    let o = Outcome::pass().nontrivial(key);
    let r = panics::catch(|| {
        // from_excel_date
        let date = match from_excel_date(serial) {
            Ok(dt) => dt,
            Err(e) => return Err(("from_excel_date:rejects-in-range", e)),
        };
        let (ey, em, ed) = ymd(&date);
        if (ey as i64, em, ed) != (y, m, d) {
            return Err((
                "from_excel_date:wrong-date",
                format!("serial {serial}: engine {ey}-{em}-{ed}, reference {y}-{m}-{d}"),
            ));
        }
        // date_to_serial_number
        match date_to_serial_number(d, m, y as i32) {
            Ok(n) if n as i64 == serial => {}
            other => {
                return Err((
                    "date_to_serial_number:wrong",
                    format!("date {y}-{m}-{d}: engine {other:?}, reference {serial}"),
                ))
            }
        }
        Ok(())
    });
    match r {
        Ok(Ok(())) => o,
        Ok(Err((sig, det))) => o.fail(format!("C21:{sig}"), det),
        Err(p) => o.fail(format!("C21:{}", p.class()), p.describe()),
    }
}

mod chrono_like {
    // from_excel_date returns a chrono::NaiveDate; the harness does not depend on chrono, so the
    // date is read through its Display form (ISO 8601, possibly with a sign / 5+ digit years).
    pub fn ymd<T: std::fmt::Display>(d: &T) -> (i32, u32, u32) {
        let s = d.to_string();
        let (neg, body) = match s.strip_prefix('-') {
            Some(b) => (true, b.to_string()),
            None => (false, s.trim_start_matches('+').to_string()),
        };
        let parts: Vec<&str> = body.split('-').collect();
        let y: i32 = parts[0].parse().unwrap_or(i32::MIN);
        let m: u32 = parts.get(1).and_then(|p| p.parse().ok()).unwrap_or(0);
        let d: u32 = parts.get(2).and_then(|p| p.parse().ok()).unwrap_or(0);
        (if neg { -y } else { y }, m, d)
    }
}

fn iso(y: i64, m: u32, d: u32) -> String {
    format!("{y:04}-{m:02}-{d:02}")
}

/// format_number(n, "yyyy-mm-dd") over a block of serials (pure function of the formatter)
fn check_format_block(block: &(i64, i64)) -> Outcome {
    let locale = get_locale("en").expect("locale en");
    let mut o = Outcome::pass().nontrivial(format!("fmt:{}-{}", block.0, block.1));
    for serial in block.0..=block.1 {
        let (y, m, d) = ref_date(serial);
        let r = panics::catch(|| format_number(serial as f64, "yyyy-mm-dd", locale));
        match r {
            Ok(f) => {
                if f.error.is_some() || f.text != iso(y, m, d) {
                    o = o.fail(
                        "C21:format:yyyy-mm-dd",
                        format!(
                            "serial {serial}: formatted '{}' (error {:?}), reference {}",
                            f.text,
                            f.error,
                            iso(y, m, d)
                        ),
                    );
                    break;
                }
            }
            Err(p) => {
                o = o.fail(format!("C21:{}", p.class()), format!("serial {serial}: {}", p.describe()));
                break;
            }
        }
    }
    o
}

fn num(v: &CellValue) -> Option<f64> {
    match v {
        CellValue::Number(n) => Some(*n),
        _ => None,
    }
}

/// Documented return types of WEEKDAY: 1/17 Sunday = 1; 2/11 Monday = 1; 3 Monday = 0; 12..16 the
/// week starts on Tuesday .. Saturday (= 1).
const WEEKDAY_TYPES: [i32; 10] = [1, 2, 3, 11, 12, 13, 14, 15, 16, 17];

/// Model-level agreement for a list of serials: YEAR/MONTH/DAY/WEEKDAY/DATE, formatted value and
/// typed ISO date.
fn check_model(serials: &[i64]) -> Outcome {
    let key = format!("model:{:?}", (serials.first(), serials.last(), serials.len()));
    let mut o = Outcome::pass().nontrivial(key);
    let r = panics::catch(|| -> Result<(), (String, String)> {
        let mut model = Model::new_empty("c21", "en", "UTC", "en").map_err(|e| ("setup".to_string(), e))?;
        for (i, &n) in serials.iter().enumerate() {
            let row = i as i32 + 1;
            let (y, m, d) = ref_date(n);
            let set = |model: &mut Model, col: i32, v: String| {
                model
                    .set_user_input(0, row, col, v)
                    .map_err(|e| ("set_user_input".to_string(), e))
            };
            set(&mut model, 1, n.to_string())?;
            set(&mut model, 2, format!("=YEAR(A{row})"))?;
            set(&mut model, 3, format!("=MONTH(A{row})"))?;
            set(&mut model, 4, format!("=DAY(A{row})"))?;
            set(&mut model, 5, format!("=WEEKDAY(A{row})"))?;
            set(&mut model, 6, format!("=DATE({y},{m},{d})"))?;
            set(&mut model, 7, iso(y, m, d))?;
            set(&mut model, 8, format!("=TEXT(A{row},\"yyyy-mm-dd\")"))?;
            // every documented numbering of WEEKDAY, as one string of digits
            let types: Vec<String> = WEEKDAY_TYPES.iter().map(|t| format!("WEEKDAY(A{row},{t})")).collect();
            set(&mut model, 9, format!("={}", types.join("&")))?;
        }
        model.evaluate();
        for (i, &n) in serials.iter().enumerate() {
            let row = i as i32 + 1;
            let (y, m, d) = ref_date(n);
            let get = |col: i32| model.get_cell_value_by_index(0, row, col).map_err(|e| ("get".to_string(), e));
            let exp: [(i32, &str, f64); 5] = [
                (2, "YEAR", y as f64),
                (3, "MONTH", m as f64),
                (4, "DAY", d as f64),
                (5, "WEEKDAY", ref_weekday(n) as f64),
                (6, "DATE", n as f64),
            ];
            for (col, name, want) in exp {
                let v = get(col)?;
                if num(&v) != Some(want) {
                    return Err((
                        format!("model:{name}"),
                        format!("serial {n} ({}): {name} gives {v:?}, reference {want}", iso(y, m, d)),
                    ));
                }
            }
            let v = get(9)?;
            let w0 = ref_weekday(n) as i64 - 1; // Sunday = 0
            let want: String = WEEKDAY_TYPES
                .iter()
                .map(|t| match t {
                    1 | 17 => w0 + 1,
                    2 | 11 => (w0 + 6) % 7 + 1,
                    3 => (w0 + 6) % 7,
                    // 12..16: the week starts on Tuesday .. Saturday
                    _ => (w0 - (*t as i64 - 10) + 7) % 7 + 1,
                })
                .map(|d| d.to_string())
                .collect();
            if v != CellValue::String(want.clone()) {
                return Err((
                    "model:WEEKDAY-return-types".to_string(),
                    format!("serial {n} ({}): WEEKDAY with return types {WEEKDAY_TYPES:?} gives {v:?}, reference digits {want}", iso(y, m, d)),
                ));
            }
            // typed ISO date: must be recognised as that serial. Years before 1900 are outside
            // what the typed-date recogniser is documented to accept: only "if number then equal".
            let v = get(7)?;
            match num(&v) {
                Some(x) if x == n as f64 => {}
                Some(x) => {
                    return Err((
                        "model:typed-iso".to_string(),
                        format!("typing {} stores {x}, reference {n}", iso(y, m, d)),
                    ))
                }
                None => {
                    if y >= 1900 {
                        return Err((
                            "model:typed-iso-not-recognised".to_string(),
                            format!("typing {} stores {v:?}, reference number {n}", iso(y, m, d)),
                        ));
                    }
                }
            }
            // the typed date displays as a date through its inferred format
            let v = get(8)?;
            if v != CellValue::String(iso(y, m, d)) {
                return Err((
                    "model:TEXT".to_string(),
                    format!("TEXT({n},\"yyyy-mm-dd\") gives {v:?}, reference {}", iso(y, m, d)),
                ));
            }
        }
        Ok(())
    });
    match r {
        Ok(Ok(())) => {}
        Ok(Err((sig, det))) => o = o.fail(format!("C21:{sig}"), det),
        Err(p) => o = o.fail(format!("C21:{}", p.class()), p.describe()),
    }
    o
}

fn model_serials(ctx: &Ctx) -> Vec<i64> {
    let mut v: Vec<i64> = vec![];
    if ctx.tier == crate::engine::Tier::Thorough {
        return (MIN_SERIAL..=MAX_SERIAL).collect();
    }
    // quick: every month boundary (first and last day of each month), every leap day, the range
    // ends, and a stride sample whose offset depends on the seed.
    let mut n = MIN_SERIAL;
    while n <= MAX_SERIAL {
        let (y, m, d) = ref_date(n);
        if d == 1 {
            v.push(n);
            if n > MIN_SERIAL {
                v.push(n - 1);
            }
        }
        if m == 2 && d == 29 {
            v.push(n);
        }
        let _ = y;
        n += 1;
    }
    v.push(MIN_SERIAL);
    v.push(MAX_SERIAL);
    let stride = 211;
    let mut n = MIN_SERIAL + (ctx.seed % stride as u64) as i64;
    while n <= MAX_SERIAL {
        v.push(n);
        n += stride;
    }
    v.sort();
    v.dedup();
    v
}

pub fn run(ctx: &Ctx) {
    ctx.set_rule(
        "Exhaustive enumeration of every serial 1..=2958465 against an integer-only civil-calendar \
         reference: from_excel_date, date_to_serial_number (injectivity follows from equality with \
         the bijective reference), format_number(yyyy-mm-dd). Model level (YEAR, MONTH, DAY, WEEKDAY, \
         DATE, TEXT, typed ISO date): quick = every month boundary, leap day and a seed-dependent \
         stride sample; thorough = every serial. Every serial is non-trivial; distinct = serials \
         (pure) + blocks (format/model).",
    );
    ctx.assume("typed ISO dates before 1900-01-01 need not be recognised as dates (only: if stored as a number it must be the right serial)");
    // boundary behaviour outside the range
    let out_of_range: Vec<i64> = vec![0, -1, MAX_SERIAL + 1, i64::MAX, i64::MIN];
    ctx.enumerate(
        "out-of-range",
        &out_of_range,
        |&n| {
            let r = panics::catch(|| from_excel_date(n));
            match r {
                Ok(Err(_)) => Outcome::pass().nontrivial(n.to_string()),
                Ok(Ok(d)) => Outcome::pass().nontrivial(n.to_string()).fail(
                    "C21:from_excel_date:accepts-out-of-range",
                    format!("serial {n} accepted as {d}"),
                ),
                Err(p) => Outcome::pass()
                    .nontrivial(n.to_string())
                    .fail(format!("C21:{}", p.class()), p.describe()),
            }
        },
        |n| json!({"serial": n}),
    );
    let all: Vec<i64> = (MIN_SERIAL..=MAX_SERIAL).collect();
    ctx.enumerate("pure", &all, |&n| check_pure(n), |n| json!({"serial": n}));
    let blocks: Vec<(i64, i64)> = (0..)
        .map(|i| (MIN_SERIAL + i * 10_000, (MIN_SERIAL + i * 10_000 + 9_999).min(MAX_SERIAL)))
        .take_while(|b| b.0 <= MAX_SERIAL)
        .collect();
    ctx.enumerate("format", &blocks, check_format_block, |b| json!({"serials": [b.0, b.1]}));
    let serials = model_serials(ctx);
    ctx.note(format!("model-level serials checked: {}", serials.len()));
    let chunks: Vec<Vec<i64>> = serials.chunks(5_000).map(|c| c.to_vec()).collect();
    ctx.enumerate(
        "model",
        &chunks,
        |c| check_model(c),
        |c| json!({"first": c.first(), "last": c.last(), "count": c.len()}),
    );
    ctx.set_exhaustive(true);
}

pub fn replay(_ctx: &Ctx, campaign: &str, case: &Value) -> Result<Outcome, String> {
    match campaign {
        "pure" | "out-of-range" => {
            let n = case["serial"].as_i64().ok_or("serial")?;
            Ok(check_pure(n))
        }
        "format" => {
            let a = case["serials"][0].as_i64().ok_or("serials")?;
            let b = case["serials"][1].as_i64().ok_or("serials")?;
            Ok(check_format_block(&(a, b)))
        }
        "model" => {
            let a = case["first"].as_i64().ok_or("first")?;
            let b = case["last"].as_i64().ok_or("last")?;
            let v: Vec<i64> = (a..=b).collect();
            Ok(check_model(&v))
        }
        _ => Err(format!("unknown campaign {campaign}")),
    }
}
