//! Root-cause signatures for panics (shared by C11, C25 and the cargo-fuzz targets, which include
//! this file by path).
//!
//! A panic is identified by *where* it was raised, in a way that survives unrelated edits of the
//! engine: crate + source file, the enclosing function, the normalised panic message and the
//! text of the source line (read from the source tree the binary was built from). Line numbers
//! are only used when the source file cannot be read.

#![allow(dead_code)]

use std::collections::HashMap;
use std::sync::Mutex;

fn sources() -> &'static Mutex<HashMap<String, Option<Vec<String>>>> {
    static S: std::sync::OnceLock<Mutex<HashMap<String, Option<Vec<String>>>>> = std::sync::OnceLock::new();
    S.get_or_init(|| Mutex::new(HashMap::new()))
}

/// `<crate dir>:<path below src/>`, e.g. `xlsx:import/worksheets.rs`, `base:expressions/utils/mod.rs`.
pub fn short_file(file: &str) -> String {
    match file.rfind("/src/") {
        Some(p) => {
            let krate = file[..p].rsplit('/').next().unwrap_or("");
            format!("{krate}:{}", &file[p + 5..])
        }
        None => file.to_string(),
    }
}

/// Digits collapsed to `N`, blanks to `_`, at most 70 chars.
pub fn message_class(message: &str) -> String {
    let mut msg = String::new();
    let mut last_digit = false;
    for c in message.chars().take(70) {
        if c.is_ascii_digit() {
            if !last_digit {
                msg.push('N');
            }
            last_digit = true;
        } else {
            last_digit = false;
            msg.push(if c.is_whitespace() { '_' } else { c });
        }
    }
    msg
}

fn fn_name_in(line: &str) -> Option<String> {
    let mut rest = line;
    while let Some(p) = rest.find("fn ") {
        let before_ok = p == 0 || !rest[..p].chars().next_back().map(|c| c.is_alphanumeric() || c == '_').unwrap_or(false);
        let after = &rest[p + 3..];
        let name: String = after.chars().take_while(|c| c.is_alphanumeric() || *c == '_').collect();
        let tail = &after[name.len()..];
        if before_ok && !name.is_empty() && (tail.starts_with('(') || tail.starts_with('<')) {
            return Some(name);
        }
        rest = &rest[p + 3..];
    }
    None
}

/// (enclosing function, text of the line without blanks, clipped) or None if the source is not
/// readable.
pub fn site(file: &str, line: u32) -> Option<(String, String)> {
    let mut cache = sources().lock().ok()?;
    let lines = cache
        .entry(file.to_string())
        .or_insert_with(|| std::fs::read_to_string(file).ok().map(|t| t.lines().map(|l| l.to_string()).collect()))
        .as_ref()?;
    let idx = (line as usize).checked_sub(1)?;
    let mut text = lines.get(idx)?.trim().to_string();
    // a line that continues a method chain: take the statement from where it starts
    let mut k = idx;
    let mut hops = 0;
    while k > 0 && hops < 6 && lines[k].trim_start().starts_with('.') {
        k -= 1;
        hops += 1;
        text = format!("{}{}", lines[k].trim(), text);
    }
    let excerpt: String = text.chars().filter(|c| !c.is_whitespace()).take(100).collect();
    let mut func = "?".to_string();
    for l in lines[..=idx].iter().rev() {
        if let Some(n) = fn_name_in(l) {
            func = n;
            break;
        }
    }
    Some((func, excerpt))
}

thread_local! {
    static ENGINE_FRAME: std::cell::RefCell<Option<(String, u32)>> = const { std::cell::RefCell::new(None) };
}

fn is_engine_source(path: &str) -> bool {
    (path.contains("/base/src/") || path.contains("/xlsx/src/")) && !path.contains("/registry/") && !path.starts_with("/rustc/")
}

/// Chain a panic hook in front of the installed one: when a panic is raised outside the engine's
/// own sources (core / std / a dependency), remember the innermost engine frame of the backtrace.
pub fn install_backtrace_hook() {
    static ONCE: std::sync::Once = std::sync::Once::new();
    ONCE.call_once(|| {
        let prev = std::panic::take_hook();
        std::panic::set_hook(Box::new(move |info| {
            let outside = info.location().map(|l| !is_engine_source(l.file())).unwrap_or(true);
            let mut frame = None;
            if outside {
                let bt = std::backtrace::Backtrace::force_capture().to_string();
                for l in bt.lines() {
                    let l = l.trim();
                    if let Some(rest) = l.strip_prefix("at ") {
                        // <path>:<line>:<col>
                        let mut it = rest.rsplitn(3, ':');
                        let _col = it.next();
                        let line = it.next().and_then(|x| x.parse::<u32>().ok());
                        let path = it.next();
                        if let (Some(path), Some(line)) = (path, line) {
                            if is_engine_source(path) {
                                frame = Some((path.to_string(), line));
                                break;
                            }
                        }
                    }
                }
            }
            ENGINE_FRAME.with(|f| *f.borrow_mut() = frame);
            prev(info);
        }));
    });
}

fn engine_frame_of_backtrace() -> Option<(String, u32)> {
    let bt = std::backtrace::Backtrace::force_capture().to_string();
    for l in bt.lines() {
        if let Some(rest) = l.trim().strip_prefix("at ") {
            let mut it = rest.rsplitn(3, ':');
            let _col = it.next();
            let line = it.next().and_then(|x| x.parse::<u32>().ok());
            if let (Some(path), Some(line)) = (it.next(), line) {
                if is_engine_source(path) {
                    return Some((path.to_string(), line));
                }
            }
        }
    }
    None
}

thread_local! {
    static LAST_PANIC: std::cell::RefCell<Option<(String, u32, String)>> = const { std::cell::RefCell::new(None) };
}

/// For the fuzz targets (no other hook machinery there): replace the panic hook by a silent one
/// that records (file, line, message) and the innermost engine frame on the panicking thread.
pub fn install_recording_hook() {
    std::panic::set_hook(Box::new(|info| {
        let message = if let Some(s) = info.payload().downcast_ref::<&str>() {
            s.to_string()
        } else if let Some(s) = info.payload().downcast_ref::<String>() {
            s.clone()
        } else {
            "<non-string panic>".to_string()
        };
        let (file, line) = info.location().map(|l| (l.file().to_string(), l.line())).unwrap_or(("<unknown>".to_string(), 0));
        let frame = if is_engine_source(&file) { None } else { engine_frame_of_backtrace() };
        ENGINE_FRAME.with(|f| *f.borrow_mut() = frame);
        LAST_PANIC.with(|l| *l.borrow_mut() = Some((file, line, message)));
    }));
}

pub fn take_last_panic() -> Option<(String, u32, String)> {
    LAST_PANIC.with(|l| l.borrow_mut().take())
}

/// The innermost engine frame of the last panic on this thread that was raised outside the
/// engine's sources (None if the panic location itself is engine code).
pub fn take_engine_frame() -> Option<(String, u32)> {
    ENGINE_FRAME.with(|f| f.borrow_mut().take())
}

/// Signature of a panic just caught on this thread.
pub fn signature_here(prop: &str, file: &str, line: u32, message: &str) -> String {
    match take_engine_frame() {
        Some((f, l)) if !is_engine_source(file) => signature(prop, &f, l, message),
        _ => signature(prop, file, line, message),
    }
}

/// `<prop>:panic:<crate:file>:<fn>:<message class>:<source line>`
pub fn signature(prop: &str, file: &str, line: u32, message: &str) -> String {
    match site(file, line) {
        Some((func, excerpt)) => format!(
            "{prop}:panic:{}:{func}:{}:{excerpt}",
            short_file(file),
            message_class(message)
        ),
        None => format!("{prop}:panic:{}:line{line}:{}", short_file(file), message_class(message)),
    }
}
