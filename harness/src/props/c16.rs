//! C16 — Cut and paste moves meaning, copy and paste translates it.
//!
//! Case = a two-sheet workbook ("Data", "Aux") in some language/locale, a source area, a paste
//! target (same or other sheet, overlapping or not) and the cut flag. The clipboard is obtained
//! from `copy_to_clipboard`, passed through serde exactly as the bindings do, and pasted with
//! `paste_from_clipboard`.
//!
//! Two workbook flavours:
//!   * `values`: typed values of every input class, scalar position-independent formulas,
//!     styles and links: everything the statement says about contents, styles, links, values;
//!   * `shape`: formulas of any shape (formula_gen, minus the operand shapes of `:` listed under
//!     C09) inside the source and referencing it from outside: canonical-tree comparisons only.
//!
//! Oracle (R-geom for cut: pi(p) = p + offset on the target sheet for p in the cut area, identity
//! elsewhere):
//!   * copy: the pasted formula's canonical tree equals the source's with every relative
//!     coordinate shifted by the paste offset, unprefixed references resolving to the target
//!     sheet, and `#REF!` for leaves shifted off the grid;
//!   * cut: pi(p) holds what p held (content kind, content of non-formulas, typed value, resolved
//!     style, link); every surviving formula (not overwritten by the paste) has the same canonical
//!     tree at pi(host) in which references to cut cells and ranges inside the cut area point at
//!     the moved location and references that do not touch the cut area are unchanged (ranges
//!     that partially overlap it are not asserted); formulas that (transitively) use only
//!     asserted references and read no overwritten cell keep their value.
//! Failures of the tree shape are blamed on the smallest sub-tree that does not survive the
//! printer involved (`moved` = move_formula.rs, `copied` = the main printer), like C09.

use std::collections::{BTreeMap, BTreeSet};

use ironcalc_base::expressions::parser::stringify::to_localized_string;
use ironcalc_base::expressions::parser::Node;
use ironcalc_base::expressions::types::{Area, CellReferenceIndex, CellReferenceRC};
use ironcalc_base::language::get_language;
use ironcalc_base::locale::get_locale;
use ironcalc_base::{ClipboardData, Model, UserModel};
use proptest::prelude::*;
use serde::{Deserialize, Serialize};
use serde_json::Value;

use super::formula_gen::{self as fg, BinOp, FTree};
use super::geom2::{self, CellObs, FormulaInfo, Leaf, LeafCanon, SheetId, Tag};
use crate::engine::ops::{self, Op, A};
use crate::engine::panics;
use crate::engine::snapshot::TV;
use crate::engine::{Ctx, Outcome, Tier};

const ROWS: i32 = 8;
const COLS: i32 = 6;
const SHEETS: [&str; 2] = ["Data", "Aux"];

#[derive(Clone, Debug, Serialize, Deserialize)]
pub struct Case {
    pub language: String,
    pub locale: String,
    /// "values" | "shape"
    pub flavor: String,
    pub setup: Vec<Op>,
    pub tags: Vec<Tag>,
    pub src: A,
    pub ts: u8,
    pub trow: i32,
    pub tcol: i32,
    pub cut: bool,
    #[serde(default)]
    pub excluded: u32,
    /// run-time exclusions of listed findings (`c16-copy-off-grid:range`, `c16-copy-off-grid:non-en`)
    #[serde(default)]
    pub restricted: Vec<String>,
}

/// The copy / serde / paste dance of the bindings. Returns the effective source (sheet, range).
fn copy_paste(um: &mut UserModel<'static>, src: &A, ts: u32, trow: i32, tcol: i32, cut: bool) -> Result<(u32, (i32, i32, i32, i32)), String> {
    let ssh = ops::res_sheet(um, src.s);
    um.set_selected_sheet(ssh).map_err(|e| format!("select: {e}"))?;
    um.set_selected_cell(src.row, src.col).map_err(|e| format!("select: {e}"))?;
    um.set_selected_range(src.row, src.col, src.row + src.h - 1, src.col + src.w - 1).map_err(|e| format!("select: {e}"))?;
    let clip = um.copy_to_clipboard().map_err(|e| format!("copy: {e}"))?;
    let v = serde_json::to_value(&clip).map_err(|e| format!("harness: {e}"))?;
    let data: ClipboardData = serde_json::from_value(v["data"].clone()).map_err(|e| format!("harness: {e}"))?;
    let range: (i32, i32, i32, i32) = serde_json::from_value(v["range"].clone()).map_err(|e| format!("harness: {e}"))?;
    let sheet: u32 = v["sheet"].as_u64().unwrap_or(0) as u32;
    um.set_selected_sheet(ts).map_err(|e| format!("select: {e}"))?;
    um.set_selected_cell(trow, tcol).map_err(|e| format!("select: {e}"))?;
    um.paste_from_clipboard(sheet, range, &data, cut).map_err(|e| format!("paste: {e}"))?;
    Ok((sheet, range))
}

#[derive(Clone, Copy, Debug)]
struct Geo {
    ss: u32,
    r1: i32,
    c1: i32,
    r2: i32,
    c2: i32,
    ts: u32,
    dr: i32,
    dc: i32,
}

impl Geo {
    fn in_src(&self, s: u32, r: i32, c: i32) -> bool {
        s == self.ss && r >= self.r1 && r <= self.r2 && c >= self.c1 && c <= self.c2
    }
    fn in_tgt(&self, s: u32, r: i32, c: i32) -> bool {
        s == self.ts && r >= self.r1 + self.dr && r <= self.r2 + self.dr && c >= self.c1 + self.dc && c <= self.c2 + self.dc
    }
    /// overwritten by the paste without being part of what moved
    fn overwritten(&self, s: u32, r: i32, c: i32) -> bool {
        self.in_tgt(s, r, c) && !self.in_src(s, r, c)
    }
    fn pi(&self, s: u32, r: i32, c: i32) -> (u32, i32, i32) {
        if self.in_src(s, r, c) {
            (self.ts, r + self.dr, c + self.dc)
        } else {
            (s, r, c)
        }
    }
    fn cross(&self) -> &'static str {
        if self.ss == self.ts {
            "same-sheet"
        } else {
            "cross-sheet"
        }
    }
}

struct State {
    cells: BTreeMap<(u32, i32, i32), CellObs>,
    formulas: Vec<FormulaInfo>,
}

fn capture(model: &Model, extra: &[(u32, i32, i32)]) -> State {
    let mut cells = BTreeMap::new();
    for s in 0..geom2::sheet_count(model) {
        for (r, c) in geom2::cell_positions(model, s) {
            cells.insert((s, r, c), geom2::observe(model, s, r, c));
        }
    }
    for &(s, r, c) in extra {
        cells.entry((s, r, c)).or_insert_with(|| geom2::observe(model, s, r, c));
    }
    State { cells, formulas: geom2::formulas(model) }
}

// ------------------------------------------------------------------------------------------------
// expected images of leaves

fn copy_image(l: &Leaf, g: &Geo) -> Option<Leaf> {
    let mut n = l.clone();
    if !l.abs[0] {
        n.r1 += g.dr;
    }
    if !l.abs[1] {
        n.c1 += g.dc;
    }
    if !l.abs[2] {
        n.r2 += g.dr;
    }
    if !l.abs[3] {
        n.c2 += g.dc;
    }
    if !l.prefixed && l.sheet == SheetId::Index(g.ss) {
        n.sheet = SheetId::Index(g.ts);
    }
    if n.on_grid() {
        Some(n)
    } else {
        None
    }
}

enum CutImage {
    At(Leaf),
    Any,
}

fn cut_image(l: &Leaf, g: &Geo) -> CutImage {
    if !l.on_sheet(g.ss) {
        return CutImage::At(l.clone());
    }
    if l.inside(g.ss, g.r1, g.c1, g.r2, g.c2) {
        let mut n = l.shifted(g.dr, g.dc);
        n.sheet = SheetId::Index(g.ts);
        return CutImage::At(n);
    }
    if l.intersects(g.ss, g.r1, g.c1, g.r2, g.c2) {
        return CutImage::Any;
    }
    CutImage::At(l.clone())
}

fn shape_only(n: &Node, r: i32, c: i32) -> String {
    geom2::canon(n, r, c, &|_, _| LeafCanon::Any)
}

// ------------------------------------------------------------------------------------------------
// blame: smallest sub-tree that does not survive a printer

#[derive(Clone, Copy, PartialEq, Eq)]
enum Printer {
    /// move_formula.rs through Model::move_cell_value_to_area
    Moved,
    /// the main printer through Model::extend_copied_value
    Copied,
}

impl Printer {
    fn name(&self) -> &'static str {
        match self {
            Printer::Moved => "moved",
            Printer::Copied => "copied",
        }
    }
}

struct Bench {
    model: Model<'static>,
    language: String,
    locale: String,
}

const BR: i32 = 7;
const BC: i32 = 5;

impl Bench {
    fn new(language: &str, locale: &str) -> Option<Bench> {
        let mut model = Model::new_empty("bench", ops::leak(locale), "UTC", ops::leak(language)).ok()?;
        model.rename_sheet_by_index(0, SHEETS[0]).ok()?;
        model.add_sheet(SHEETS[1]).ok()?;
        Some(Bench { model, language: language.to_string(), locale: locale.to_string() })
    }

    /// Print `n` (hosted at BR,BC of Data) in the bench's language/locale, send it through the
    /// printer and read the result back: does the tree shape survive?
    fn survives(&mut self, n: &Node, p: Printer) -> bool {
        let lang = match get_language(&self.language) {
            Ok(l) => l,
            Err(_) => return true,
        };
        let loc = match get_locale(&self.locale) {
            Ok(l) => l,
            Err(_) => return true,
        };
        let ctx = CellReferenceRC { sheet: SHEETS[0].to_string(), row: BR, column: BC };
        let r = panics::catch(|| {
            let text = format!("={}", to_localized_string(n, &ctx, loc, lang));
            // what the engine itself reads from that text is the reference tree
            self.model.set_user_input(0, BR, BC, text.clone()).ok()?;
            let want = geom2::formula_at(&geom2::formulas(&self.model), 0, BR, BC).map(|f| shape_only(&f.node, BR, BC))?;
            let source = CellReferenceIndex { sheet: 0, row: BR, column: BC };
            let target = CellReferenceIndex { sheet: 0, row: BR + 1, column: BC + 1 };
            let out = match p {
                Printer::Moved => {
                    let area = Area { sheet: 0, row: BR, column: BC, width: 1, height: 1 };
                    self.model.move_cell_value_to_area(&text, &source, &target, &area).ok()?
                }
                Printer::Copied => self.model.extend_copied_value(&text, &source, &target).ok()?,
            };
            self.model.set_user_input(0, BR + 1, BC + 1, out).ok()?;
            let got = geom2::formula_at(&geom2::formulas(&self.model), 0, BR + 1, BC + 1).map(|f| shape_only(&f.node, BR + 1, BC + 1))?;
            Some(want == got)
        });
        match r {
            Ok(Some(b)) => b,
            Ok(None) => false,
            Err(_) => false,
        }
    }

    fn blame(&mut self, t: &Node, p: Printer) -> String {
        fn find<'a>(b: &mut Bench, n: &'a Node, p: Printer) -> Option<&'a Node> {
            for c in geom2::children(n) {
                if let Some(f) = find(b, c, p) {
                    return Some(f);
                }
            }
            if matches!(n, Node::EmptyArgKind) {
                return None;
            }
            if b.survives(n, p) {
                None
            } else {
                Some(n)
            }
        }
        let Some(s) = find(self, t, p) else {
            return "whole-formula-only".to_string();
        };
        let kids = geom2::children(s);
        let slots = geom2::child_slots(s);
        if let Node::ArrayKind(rows) = s {
            use ironcalc_base::expressions::parser::ArrayNode;
            for e in rows.iter().flatten() {
                if !self.survives(&Node::ArrayKind(vec![vec![e.clone()]]), p) {
                    let class = match e {
                        ArrayNode::Boolean(_) => "Boolean",
                        ArrayNode::Number(x) if x.fract() != 0.0 => "Number(decimal)",
                        ArrayNode::Number(_) => "Number",
                        ArrayNode::String(_) => "String",
                        ArrayNode::Error(_) => "Error",
                        ArrayNode::Empty => "Empty",
                    };
                    return format!("token=Array-element:{class}");
                }
            }
            let one = ArrayNode::Number(1.0);
            if !self.survives(&Node::ArrayKind(vec![vec![one.clone(), one.clone()]]), p) {
                return "token=Array(column-separator)".to_string();
            }
            if !self.survives(&Node::ArrayKind(vec![vec![one.clone()], vec![one.clone()]]), p) {
                return "token=Array(row-separator)".to_string();
            }
            return "token=Array(other)".to_string();
        }
        if kids.is_empty() {
            return format!("token={}", token_class(s));
        }
        let leaves = [
            Node::NumberKind(1.0),
            Node::ReferenceKind { sheet_name: None, sheet_index: 0, absolute_row: true, absolute_column: true, row: 1, column: 1 },
            Node::NamedFunctionKind { id: None, name: "f".to_string(), args: vec![Node::NumberKind(1.0)] },
        ];
        for leaf in &leaves {
            let all: Vec<Node> = kids.iter().map(|c| if matches!(c, Node::EmptyArgKind) { Node::EmptyArgKind } else { leaf.clone() }).collect();
            if !self.survives(&geom2::with_children(s, all), p) {
                continue;
            }
            for (i, c) in kids.iter().enumerate() {
                if matches!(c, Node::EmptyArgKind) {
                    continue;
                }
                let one: Vec<Node> =
                    kids.iter().enumerate().map(|(j, d)| if j == i || matches!(d, Node::EmptyArgKind) { (*d).clone() } else { leaf.clone() }).collect();
                if !self.survives(&geom2::with_children(s, one), p) {
                    return format!("parent={},child={},side={}", geom2::kind(s), geom2::kind(c), slots[i]);
                }
            }
            let ks: Vec<String> = kids.iter().map(|c| geom2::kind(c)).collect();
            return format!("parent={},children={}", geom2::kind(s), ks.join("+"));
        }
        // the parent does not survive even with neutral children
        if kids.len() >= 2 && matches!(s, Node::FunctionKind { .. } | Node::NamedFunctionKind { .. } | Node::LambdaCallKind { .. } | Node::LambdaDefKind { .. }) {
            return format!("parent={},argument-list", geom2::kind(s));
        }
        format!("parent={},child=*", geom2::kind(s))
    }
}

fn token_class(n: &Node) -> String {
    match n {
        Node::NumberKind(x) if x.fract() != 0.0 => "Number(decimal)".into(),
        Node::StringKind(s) if s.contains('"') => "String(with-quote)".into(),
        Node::ReferenceKind { sheet_name, .. } | Node::RangeKind { sheet_name, .. } => {
            format!("{}({})", geom2::kind(n), if sheet_name.is_some() { "sheet" } else { "no-sheet" })
        }
        other => geom2::kind(other),
    }
}

/// Signature fragment for a formula whose shape did not survive `p` in (language, locale).
fn blame(n: &Node, p: Printer, language: &str, locale: &str) -> String {
    let Some(mut b) = Bench::new(language, locale) else {
        return format!("{}:bench-unavailable", p.name());
    };
    let what = b.blame(n, p);
    if what == "whole-formula-only" {
        return format!("{}:{what}", p.name());
    }
    // is the failure a matter of language / locale?
    let mut qual = String::new();
    if (language, locale) != ("en", "en") {
        if let Some(mut en) = Bench::new("en", "en") {
            if en.survives(n, p) {
                let by_locale = Bench::new(language, "en").map(|mut x| x.survives(n, p)).unwrap_or(false);
                let by_language = Bench::new("en", locale).map(|mut x| x.survives(n, p)).unwrap_or(false);
                qual = match (by_locale, by_language) {
                    (true, false) => "[locale-dependent]".to_string(),
                    (false, true) => "[language-dependent]".to_string(),
                    _ => "[language+locale-dependent]".to_string(),
                };
            }
        }
    }
    format!("{}{qual}:{what}", p.name())
}

// ------------------------------------------------------------------------------------------------
// the check

pub fn check(case: &Case) -> Outcome {
    let mut o = Outcome::pass();
    o.excluded += case.excluded as u64;
    let values = case.flavor == "values";
    let mut um = ops::new_user_model(&case.locale, &case.language);
    if let Err(e) = geom2::apply_setup(&mut um, &case.setup) {
        let k = e.split(':').next().unwrap_or("?").to_string();
        return o.label(format!("setup-failed:{k}"));
    }
    let ss = ops::res_sheet(&um, case.src.s);
    let ts = ops::res_sheet(&um, case.ts);
    // positions to observe even when empty
    let mut extra = vec![];
    for r in case.src.row..case.src.row + case.src.h {
        for c in case.src.col..case.src.col + case.src.w {
            extra.push((ss, r, c));
            extra.push((ts, case.trow + r - case.src.row, case.tcol + c - case.src.col));
        }
    }
    let before = capture(um.get_model(), &extra);
    let cut = case.cut;
    if cut && case.restricted.iter().any(|x| x == "c16-moved:parentheses") {
        // listed: the moved-formula printer adds parentheses around a unary operator at the right
        // of * and /, the text differs from the displayed one and the formula is typed again. The
        // source tree describes text, not meaning (`a*b%` can be written as %(a*b)), so this is
        // decided on the parsed formulas.
        let mut hit = false;
        for f in &before.formulas {
            crate::engine::nodes::walk(&f.node, &mut |n| {
                if let Node::OpProductKind { right, .. } = n {
                    if matches!(**right, Node::UnaryKind { .. }) {
                        hit = true;
                    }
                }
            });
        }
        if hit {
            o.excluded += 1;
            return o.label("excluded:unary-right-of-product(listed)");
        }
    }
    let res = panics::catch(|| copy_paste(&mut um, &case.src, ts, case.trow, case.tcol, cut));
    let op = if cut { "cut" } else { "copy" };
    o = o.label(format!("op:{op}")).label(format!("flavor:{}", case.flavor));
    let (ssheet, range) = match res {
        Err(p) => return o.fail(format!("C16:{}", geom2::panic_sig(&p)), format!("{op}+paste panicked: {}", p.describe())),
        Ok(Err(e)) => {
            let k = if e.contains("array") { "array" } else { e.split(':').next().unwrap_or("?") };
            return o.label(format!("rejected:{k}"));
        }
        Ok(Ok(x)) => x,
    };
    let g = Geo { ss: ssheet, r1: range.0, c1: range.1, r2: range.2, c2: range.3, ts, dr: case.trow - range.0, dc: case.tcol - range.1 };
    o = o.label(g.cross());
    if g.dr == 0 && g.dc == 0 && g.ss == g.ts {
        o = o.label("paste-onto-itself");
    }
    let model = um.get_model();
    let after_fs = geom2::formulas(model);
    let class_at = |s: u32, r: i32, c: i32| geom2::class_of(&case.tags, s, r, c);
    let mut has_nested = false;
    let mut outside_refs_source = false;

    if !cut {
        // ------------------------------------------------------------------ copy
        for f in &before.formulas {
            if !g.in_src(f.sheet, f.row, f.col) {
                continue;
            }
            let b = &before.cells[&(f.sheet, f.row, f.col)];
            if b.kind != "formula" && b.kind != "dyn-array" {
                o = o.label(format!("skipped-source-kind:{}", b.kind.split('(').next().unwrap_or("")));
                continue;
            }
            if geom2::has_parse_error(&f.node) {
                o = o.label("skipped:source-does-not-parse");
                continue;
            }
            if geom2::children(&f.node).iter().any(|c| !geom2::children(c).is_empty()) || matches!(f.node, Node::ArrayKind(_)) {
                has_nested = true;
            }
            let (qs, qr, qc) = (g.ts, f.row + g.dr, f.col + g.dc);
            let off: Vec<&Leaf> = f.leaves.iter().filter(|l| copy_image(l, &g).is_none()).collect();
            if !off.is_empty() {
                let on = |s: &str| case.restricted.iter().any(|x| x == s);
                let after_last_row = off.iter().any(|l| {
                    let r1 = if l.abs[0] { l.r1 } else { l.r1 + g.dr };
                    let r2 = if l.abs[2] { l.r2 } else { l.r2 + g.dr };
                    r1.max(r2) > geom2::LAST_ROW
                });
                if (off.iter().any(|l| l.is_range) && on("c16-copy-off-grid:range"))
                    || (case.language != "en" && on("c16-copy-off-grid:non-en"))
                    || (after_last_row && on("c16-copy-off-grid:after-last-row"))
                {
                    o.excluded += 1;
                    o = o.label("skipped:copy-off-grid(listed)");
                    continue;
                }
                o = o.label("copy-shifts-leaf-off-grid");
            }
            let want = geom2::canon(&f.node, f.row, f.col, &|_, l| match copy_image(l, &g) {
                Some(n) => LeafCanon::At(n.canon()),
                None => LeafCanon::RefError,
            });
            let Some(t) = geom2::formula_at(&after_fs, qs, qr, qc) else {
                return o.fail(
                    format!("C16:copy:formula-lost:class={}", class_at(f.sheet, f.row, f.col)),
                    format!("formula {} of {} (sheet {}) copied to {} (sheet {qs}) is not a formula there: {}", b.content, geom2::a1(f.row, f.col), f.sheet, geom2::a1(qr, qc), geom2::observe(model, qs, qr, qc).show()),
                );
            };
            let got = geom2::canon(&t.node, qr, qc, &|_, l| if l.on_grid() { LeafCanon::At(l.canon()) } else { LeafCanon::RefError });
            if want != got {
                let got_content = geom2::observe(model, qs, qr, qc).content;
                let detail = format!(
                    "[{}/{}] formula {} of {} (sheet {}) copied to {} (sheet {qs}) reads {}\n  expected tree {want}\n  pasted tree   {got}",
                    case.language, case.locale, b.content, geom2::a1(f.row, f.col), f.sheet, geom2::a1(qr, qc), got_content
                );
                if shape_only(&f.node, f.row, f.col) != shape_only(&t.node, qr, qc) && f.leaves.iter().all(|l| copy_image(l, &g).is_some()) {
                    return o.fail(format!("C16:{}", blame(&f.node, Printer::Copied, &case.language, &case.locale)), detail);
                }
                if !off.is_empty() {
                    let what = if off.iter().any(|l| l.is_range) { "range" } else { "cell" };
                    let lang = if case.language == "en" { "en" } else { "non-en" };
                    // which edge of the grid was crossed
                    let mut dirs: BTreeSet<&str> = BTreeSet::new();
                    for l in &off {
                        let mut n = (*l).clone();
                        if !l.abs[0] { n.r1 += g.dr; }
                        if !l.abs[1] { n.c1 += g.dc; }
                        if !l.abs[2] { n.r2 += g.dr; }
                        if !l.abs[3] { n.c2 += g.dc; }
                        if n.r1.min(n.r2) < 1 || n.c1.min(n.c2) < 1 { dirs.insert("before-first"); }
                        if n.r1.max(n.r2) > geom2::LAST_ROW { dirs.insert("after-last-row"); }
                        if n.c1.max(n.c2) > geom2::LAST_COLUMN { dirs.insert("after-last-column"); }
                    }
                    let dirs: Vec<&str> = dirs.into_iter().collect();
                    return o.fail(format!("C16:copy:off-grid:{what}:{}:language={lang}", dirs.join("+")), detail);
                }
                return o.fail(format!("C16:copy:ref:{}", g.cross()), detail);
            }
        }
        for f in &before.formulas {
            if !g.in_src(f.sheet, f.row, f.col) && f.leaves.iter().any(|l| l.intersects(g.ss, g.r1, g.c1, g.r2, g.c2)) {
                outside_refs_source = true;
            }
        }
    } else {
        // ------------------------------------------------------------------ cut
        // (1) every surviving formula: tree shape and references
        for f in &before.formulas {
            if g.overwritten(f.sheet, f.row, f.col) {
                continue;
            }
            let b = &before.cells[&(f.sheet, f.row, f.col)];
            if b.kind != "formula" && b.kind != "dyn-array" {
                continue;
            }
            if geom2::has_parse_error(&f.node) {
                o = o.label("skipped:formula-does-not-parse");
                continue;
            }
            let moved = g.in_src(f.sheet, f.row, f.col);
            let host = if moved { "moved" } else { "external" };
            if moved && (geom2::children(&f.node).iter().any(|c| !geom2::children(c).is_empty()) || matches!(f.node, Node::ArrayKind(_))) {
                has_nested = true;
            }
            if !moved && f.leaves.iter().any(|l| l.intersects(g.ss, g.r1, g.c1, g.r2, g.c2)) {
                outside_refs_source = true;
            }
            let (qs, qr, qc) = g.pi(f.sheet, f.row, f.col);
            if !values && geom2::observe(model, qs, qr, qc).kind == "spill" {
                // a dynamic array of the `shape` flavour spills over the cell (C31's business)
                o = o.label("skipped:covered-by-spill");
                continue;
            }
            let Some(t) = geom2::formula_at(&after_fs, qs, qr, qc) else {
                return o.fail(
                    format!("C16:cut:formula-lost:host={host}:class={}:{}", class_at(f.sheet, f.row, f.col), g.cross()),
                    format!("formula {} of {} (sheet {}) is not a formula at {} (sheet {qs}) after the cut+paste: {}", b.content, geom2::a1(f.row, f.col), f.sheet, geom2::a1(qr, qc), geom2::observe(model, qs, qr, qc).show()),
                );
            };
            let detail = |want: &str, got: &str| {
                format!(
                    "[{}/{}] cut {}:{} of sheet {} pasted at {} of sheet {}: {host} formula {} of {} (sheet {}) now at {} (sheet {qs}) reads {}\n  expected tree {want}\n  actual tree   {got}",
                    case.language,
                    case.locale,
                    geom2::a1(g.r1, g.c1),
                    geom2::a1(g.r2, g.c2),
                    g.ss,
                    geom2::a1(g.r1 + g.dr, g.c1 + g.dc),
                    g.ts,
                    b.content,
                    geom2::a1(f.row, f.col),
                    f.sheet,
                    geom2::a1(qr, qc),
                    geom2::observe(model, qs, qr, qc).content
                )
            };
            let ws = shape_only(&f.node, f.row, f.col);
            let gs = shape_only(&t.node, qr, qc);
            if ws != gs || t.leaves.len() != f.leaves.len() {
                return o.fail(format!("C16:{}", blame(&f.node, Printer::Moved, &case.language, &case.locale)), detail(&ws, &gs));
            }
            for (i, l) in f.leaves.iter().enumerate() {
                if let CutImage::At(w) = cut_image(l, &g) {
                    if w.canon() != t.leaves[i].canon() {
                        let target = if l.inside(g.ss, g.r1, g.c1, g.r2, g.c2) { "into-cut-area" } else { "outside-cut-area" };
                        let prefixed = if l.prefixed { "prefixed" } else { "unprefixed" };
                        return o.fail(
                            format!("C16:cut:ref:{}:{target}:{prefixed}:host={host}:{}", if l.is_range { "range" } else { "cell" }, g.cross()),
                            format!("{}\n  reference {} should have become {} but is {}", detail(&ws, &gs), l.canon(), w.canon(), t.leaves[i].canon()),
                        );
                    }
                }
            }
        }
        // (2) what moved (the `shape` flavour holds dynamic arrays whose spills legitimately
        // cover other pasted cells: cells are compared in the `values` flavour only)
        for r in g.r1..=g.r2 {
            if !values {
                break;
            }
            for c in g.c1..=g.c2 {
                let Some(b) = before.cells.get(&(g.ss, r, c)) else { continue };
                if b.kind == "spill" || b.kind.starts_with("cse-array") {
                    o = o.label(format!("skipped-source-kind:{}", b.kind.split('(').next().unwrap_or("")));
                    continue;
                }
                let (qs, qr, qc) = g.pi(g.ss, r, c);
                let a = geom2::observe(model, qs, qr, qc);
                let diff = if b.is_formula() {
                    let mut bb = b.clone();
                    bb.content = a.content.clone();
                    bb.value = a.value.clone();
                    bb.first_diff(&a, false)
                } else {
                    b.first_diff(&a, true)
                };
                if let Some(aspect) = diff {
                    return o.fail(
                        format!("C16:cut:cell.{aspect}:class={}:{}", class_at(g.ss, r, c), g.cross()),
                        format!(
                            "[{}/{}] cut {}:{} of sheet {} pasted at {} of sheet {}: {} held {} but {} holds {}",
                            case.language,
                            case.locale,
                            geom2::a1(g.r1, g.c1),
                            geom2::a1(g.r2, g.c2),
                            g.ss,
                            geom2::a1(g.r1 + g.dr, g.c1 + g.dc),
                            g.ts,
                            geom2::a1(r, c),
                            b.show(),
                            geom2::a1(qr, qc),
                            a.show()
                        ),
                    );
                }
            }
        }
        // (3) values
        if values {
            let q = geom2::qualifying(&before.formulas, &|f: &FormulaInfo| {
                if f.cse || g.overwritten(f.sheet, f.row, f.col) {
                    return false;
                }
                let v = &before.cells[&(f.sheet, f.row, f.col)].value;
                if geom2::order_dependent_value(v) {
                    return false;
                }
                f.leaves.iter().all(|l| {
                    if matches!(cut_image(l, &g), CutImage::Any) {
                        return false;
                    }
                    // reads an overwritten cell?
                    let (t, lf, b, r) = (g.r1 + g.dr, g.c1 + g.dc, g.r2 + g.dr, g.c2 + g.dc);
                    if l.intersects(g.ts, t, lf, b, r) {
                        // some cell of the target area: fine only if the leaf lies inside the cut area too
                        return l.inside(g.ss, g.r1, g.c1, g.r2, g.c2) && g.ss == g.ts;
                    }
                    true
                })
            });
            let mut checked = 0;
            for (i, f) in before.formulas.iter().enumerate() {
                if !q[i] {
                    continue;
                }
                let (qs, qr, qc) = g.pi(f.sheet, f.row, f.col);
                let b = &before.cells[&(f.sheet, f.row, f.col)];
                let a = geom2::observe(model, qs, qr, qc);
                checked += 1;
                if b.value != a.value {
                    let host = if g.in_src(f.sheet, f.row, f.col) { "moved" } else { "external" };
                    return o.fail(
                        format!("C16:cut:formula-value:host={host}:{}", g.cross()),
                        format!(
                            "[{}/{}] cut {}:{} of sheet {} pasted at {} of sheet {}: {host} formula {} of {} (sheet {}) had value {}; now at {} (sheet {qs}) it reads {} with value {}",
                            case.language,
                            case.locale,
                            geom2::a1(g.r1, g.c1),
                            geom2::a1(g.r2, g.c2),
                            g.ss,
                            geom2::a1(g.r1 + g.dr, g.c1 + g.dc),
                            g.ts,
                            b.content,
                            geom2::a1(f.row, f.col),
                            f.sheet,
                            b.value.render(false),
                            geom2::a1(qr, qc),
                            a.content,
                            a.value.render(false)
                        ),
                    );
                }
            }
            o = o.label(format!("value-checked-formulas:{}", checked.min(9)));
        }
    }
    let mut classes: BTreeSet<String> = BTreeSet::new();
    for t in &case.tags {
        if g.in_src(t.s as u32, t.row, t.col) {
            classes.insert(t.class.clone());
        }
    }
    for c in classes {
        o = o.label(format!("source-class:{c}"));
    }
    let source_has_formula = before.formulas.iter().any(|f| g.in_src(f.sheet, f.row, f.col));
    let nt = if values { source_has_formula && outside_refs_source } else { has_nested && outside_refs_source };
    if nt {
        o = o.nontrivial(serde_json::to_string(case).unwrap_or_default());
    }
    o
}

// ------------------------------------------------------------------------------------------------
// generators

#[derive(Clone, Debug, Default)]
pub struct Avoid {
    pub restricted: Vec<String>,
    pub classes: Vec<String>,
    pub cross_sheet_cut: bool,
    pub overlapping_cut: bool,
    pub switches: Vec<String>,
}

impl Avoid {
    fn on(&self, s: &str) -> bool {
        self.switches.iter().any(|x| x == s)
    }
}

pub fn avoid_from(ctx: &Ctx) -> Avoid {
    let mut a = Avoid::default();
    for c in super::c15::CLASSES {
        if ctx.avoid(&format!("c16-class:{c}")) {
            a.classes.push(c.to_string());
        }
    }
    for s in ["c16-copy-off-grid:range", "c16-copy-off-grid:non-en", "c16-copy-off-grid:after-last-row", "c16-moved:parentheses"] {
        if ctx.avoid(s) {
            a.restricted.push(s.to_string());
        }
    }
    a.cross_sheet_cut = ctx.avoid("c16-cross-sheet-cut");
    a.overlapping_cut = ctx.avoid("c16-overlapping-cut");
    for s in MOVED_SWITCHES {
        if ctx.avoid(s) {
            a.switches.push(s.to_string());
        }
    }
    a
}

/// Switches of the listed findings of the moved-formula printer (move_formula.rs). Every formula
/// of a workbook in which something is *cut* goes through that printer, so each switch removes
/// one construct from all formulas of the cut campaigns (copy keeps the full grammar).
pub const MOVED_SWITCHES: [&str; 6] = [
    // no parentheses in the source text: the parsed tree never needs any
    "c16-moved:parentheses",
    // `,` is hard-coded as argument separator: en / en-GB only
    "c16-moved:decimal-comma-locales",
    // TRUE / FALSE / error literals are printed in English: none under another language
    "c16-moved:unlocalized-literals",
    "c16-moved:arrays",
    "c16-moved:lambda",
    "c16-moved:strings-with-quote",
];

fn config_for(cut: bool, avoid: &Avoid) -> BoxedStrategy<(String, String)> {
    if cut && avoid.on("c16-moved:decimal-comma-locales") {
        (prop_oneof![5 => Just("en"), 1 => Just("es"), 1 => Just("fr"), 1 => Just("de"), 1 => Just("it")], prop_oneof![3 => Just("en"), 1 => Just("en-GB")])
            .prop_map(|(a, b)| (a.to_string(), b.to_string()))
            .boxed()
    } else {
        geom2::config_strategy().boxed()
    }
}

/// Adjusts a profile for workbooks in which something is cut.
fn adjust_for_cut(p: &mut fg::Profile, avoid: &Avoid, language: &str) {
    if avoid.on("c16-moved:unlocalized-literals") && language != "en" {
        p.booleans = false;
        p.errors = false;
    }
    if avoid.on("c16-moved:arrays") {
        p.arrays = false;
    }
    if avoid.on("c16-moved:lambda") {
        p.lambdas = false;
        p.let_ = false;
    }
    if avoid.on("c16-moved:parentheses") {
        p.extra_parens_pct = 0;
    }
}

/// Removes from a tree what the listed findings name; returns the number of replacements.
fn clean_for_cut(t: FTree, avoid: &Avoid) -> (FTree, u32) {
    let mut t = t;
    let mut n = 0;
    if avoid.on("c16-moved:parentheses") {
        let s = fg::strip_parens(&t);
        if s != t {
            n += 1;
        }
        t = s;
    }
    if avoid.on("c16-moved:parentheses") {
        // the printer also *adds* parentheses around a unary operator at the right of * and /
        // (`a*-b` -> `a*(-b)`, `a*b%` -> `a*(b%)`): the text differs from the displayed one and the
        // formula is typed again; such operands are moved to the left
        let s = unary_to_the_left(&t);
        if s != t {
            n += 1;
        }
        t = s;
    }
    if avoid.on("c16-moved:strings-with-quote") && has_quote_string(&t) {
        n += 1;
        t = replace_quote_strings(&t);
    }
    (t, n)
}

fn shape_profile(cut: bool, avoid: &Avoid, language: &str) -> fg::Profile {
    let mut p = fg::Profile::all();
    // operands of `:` other than references are listed under C09 (printer and parser disagree)
    p.binary = fg::BIN_OPS.iter().cloned().filter(|o| *o != BinOp::Range).collect();
    p.sheets = vec!["Data".to_string(), "Aux".to_string(), "Ghost".to_string()];
    p.sheet_pct = 25;
    p.max_col = COLS;
    p.max_row = ROWS;
    // (a range with one corner at XFD1048576 is the whole sheet: MIN / MAX / COUNT walk it cell by cell)
    p.edge_refs = false;
    p.ref_weight = 12;
    p.names = vec!["x".to_string(), "y".to_string()];
    if cut {
        adjust_for_cut(&mut p, avoid, language);
    }
    p
}

fn unary_to_the_left(t: &FTree) -> FTree {
    fg::map_children(t, &|c| unary_to_the_left(c), &|n| match n {
        FTree::Bin(op, l, r) if matches!(op, BinOp::Mul | BinOp::Div) && matches!(*r, FTree::Un(..)) => FTree::Bin(op, r, l),
        o => o,
    })
}

fn has_quote_string(t: &FTree) -> bool {
    let mut b = false;
    t.walk(&mut |n| {
        if let FTree::Str(s) = n {
            if s.contains('"') {
                b = true;
            }
        }
    });
    b
}

fn style_edit() -> impl Strategy<Value = (String, String)> {
    prop_oneof![
        Just(("font.b".to_string(), "true".to_string())),
        Just(("fill.color".to_string(), "#FF0000".to_string())),
        Just(("num_fmt".to_string(), "0.00".to_string())),
        Just(("alignment.horizontal".to_string(), "center".to_string())),
    ]
}

fn geometry() -> impl Strategy<Value = (A, u8, i32, i32)> {
    // source on Data (mostly) or Aux, target same sheet (mostly) or the other one
    (prop_oneof![5 => Just(0u8), 1 => Just(1u8)], 1..=ROWS - 1, 1..=COLS - 1, 1..=3i32, 1..=3i32, prop_oneof![3 => Just(true), 1 => Just(false)], 1..=ROWS + 2, 1..=COLS + 2)
        .prop_map(|(s, row, col, w, h, same, trow, tcol)| (A { s, row, col, w, h }, if same { s } else { 1 - s }, trow, tcol))
}

pub fn values_strategy(avoid: Avoid) -> BoxedStrategy<Case> {
    let avoid0 = avoid.clone();
    prop_oneof![3 => Just(true), 2 => Just(false)]
        .prop_flat_map(move |cut| (config_for(cut, &avoid0), geometry(), Just(cut)))
        .prop_flat_map(move |((language, locale), (src, ts, trow, tcol), cut)| {
            let avoid = avoid.clone();
            let style = std::sync::Arc::new(fg::Style::new(&language, &locale).unwrap_or_else(|_| fg::Style::new("en", "en").expect("en")));
            let mut profile = geom2::scalar_profile(&SHEETS, 20, ROWS, COLS);
            if cut {
                adjust_for_cut(&mut profile, &avoid, &language);
            }
            let values = prop::collection::vec((0..2u8, 1..=ROWS, 1..=COLS, geom2::value_input(&language, &locale)), 16..30);
            let formulas = prop::collection::vec((0..2u8, 1..=ROWS + 2, 1..=COLS + 2, geom2::scalar_formula(&profile, 3)), 5..10);
            // formulas inside the source area and formulas referencing it, by construction
            let inner = prop::collection::vec((0..3i32, 0..3i32, geom2::scalar_formula(&profile, 2)), 1..3);
            let styles = prop::collection::vec((0..2u8, 1..=ROWS, 1..=COLS, 1..3i32, 1..3i32, style_edit()), 0..4);
            let links = prop::collection::vec((1..=ROWS, 1..=COLS, ops::gen_link()), 0..3);
            (values, formulas, inner, styles, links).prop_map(move |(values, formulas, inner, styles, links)| {
                let mut setup: Vec<Op> = vec![Op::RenameSheet(0, SHEETS[0].to_string()), Op::NewSheet, Op::RenameSheet(1, SHEETS[1].to_string())];
                let mut tags: Vec<Tag> = vec![];
                let mut excluded = 0u32;
                let (ts, cross_excluded) = if cut && avoid.cross_sheet_cut && ts != src.s { (src.s, 1) } else { (ts, 0) };
                excluded += cross_excluded;
                let (trow, tcol, ov) = disjoint_target(cut && avoid.overlapping_cut && ts == src.s, &src, trow, tcol);
                excluded += ov;
                let mut cleaned = 0u32;
                let mut fix = |t: FTree| -> FTree {
                    if !cut {
                        return t;
                    }
                    let (t, n) = clean_for_cut(t, &avoid);
                    cleaned += n;
                    t
                };
                let formulas: Vec<(u8, i32, i32, FTree)> = formulas.into_iter().map(|(s, r, c, t)| (s, r, c, fix(t))).collect();
                let inner: Vec<(i32, i32, FTree)> = inner.into_iter().map(|(a, b, t)| (a, b, fix(t))).collect();
                excluded += cleaned;
                let mut put = |setup: &mut Vec<Op>, tags: &mut Vec<Tag>, s: u8, row: i32, col: i32, text: String, class: String| {
                    let (text, class) = if avoid.classes.contains(&class) {
                        excluded += 1;
                        ("7".to_string(), "int".to_string())
                    } else {
                        (text, class)
                    };
                    // one input per cell: a second one would inherit the format the first implied
                    if class != "formula" && tags.iter().any(|t| t.s == s && t.row == row && t.col == col) {
                        return;
                    }
                    if let Some(first) = geom2::first_input(&class) {
                        setup.push(Op::Input { s, row, col, text: first.to_string() });
                    }
                    setup.push(Op::Input { s, row, col, text });
                    tags.retain(|t| !(t.s == s && t.row == row && t.col == col));
                    tags.push(Tag { s, row, col, class });
                };
                for (s, r, c, (text, class)) in values {
                    put(&mut setup, &mut tags, s, r, c, text, class);
                }
                for (s, r, c, t) in formulas {
                    put(&mut setup, &mut tags, s, r, c, format!("={}", fg::print(&t, &style)), "formula".to_string());
                }
                for (dr, dc, t) in inner {
                    let (r, c) = (src.row + dr % src.h, src.col + dc % src.w);
                    put(&mut setup, &mut tags, src.s, r, c, format!("={}", fg::print(&t, &style)), "formula".to_string());
                }
                // an outside formula reading a cell of the source and one reading a range inside it
                let sref = Some(fg::SheetRef { name: SHEETS[src.s as usize].to_string(), quoted: false });
                let f1 = FTree::bin(
                    BinOp::Add,
                    FTree::Ref { sheet: sref.clone(), cell: fg::CellRef { col: src.col, row: src.row, abs_col: false, abs_row: false } },
                    FTree::num(1),
                );
                let f2 = FTree::func(
                    "SUM",
                    vec![FTree::Range {
                        sheet: None,
                        a: fg::CellRef { col: src.col, row: src.row, abs_col: true, abs_row: false },
                        b: fg::CellRef { col: src.col + src.w - 1, row: src.row + src.h - 1, abs_col: false, abs_row: true },
                    }],
                );
                put(&mut setup, &mut tags, 1 - src.s, ROWS + 3, 1, format!("={}", fg::print(&f1, &style)), "formula".to_string());
                put(&mut setup, &mut tags, src.s, ROWS + 3, COLS + 3, format!("={}", fg::print(&f2, &style)), "formula".to_string());
                for (s, r, c, h, w, (path, value)) in styles {
                    setup.push(Op::UpdateStyle { a: A { s, row: r, col: c, w, h }, path, value });
                }
                for (r, c, link) in links {
                    setup.push(Op::LinkSet { s: src.s, row: r, col: c, link, label: None });
                }
                Case { language: language.clone(), locale: locale.clone(), flavor: "values".into(), setup, tags, src: src.clone(), ts, trow, tcol, cut, excluded, restricted: avoid.restricted.clone() }
            })
        })
        .boxed()
}

pub fn shape_strategy(avoid: Avoid, cut: bool) -> BoxedStrategy<Case> {
    (config_for(cut, &avoid), geometry())
        .prop_flat_map(move |((language, locale), (src, ts, trow, tcol))| {
            let avoid = avoid.clone();
            let style = std::sync::Arc::new(fg::Style::new(&language, &locale).unwrap_or_else(|_| fg::Style::new("en", "en").expect("en")));
            let p = shape_profile(cut, &avoid, &language);
            let mut scalar = geom2::scalar_profile(&SHEETS, 20, ROWS, COLS);
            if cut {
                adjust_for_cut(&mut scalar, &avoid, &language);
            }
            let inner = prop::collection::vec((0..3i32, 0..3i32, fg::source_strategy(&p, 3, 3, 60)), 2..6);
            let outer = prop::collection::vec((0..2u8, 1..=ROWS + 2, 1..=COLS + 2, fg::source_strategy(&p, 2, 3, 60)), 2..5);
            let values = prop::collection::vec((0..2u8, 1..=ROWS, 1..=COLS, -20..20i32), 6..14);
            let plain = prop::collection::vec((0..2u8, 1..=ROWS + 2, 1..=COLS + 2, geom2::scalar_formula(&scalar, 2)), 1..3);
            (inner, outer, values, plain).prop_map(move |(inner, outer, values, plain)| {
                let mut setup: Vec<Op> = vec![Op::RenameSheet(0, SHEETS[0].to_string()), Op::NewSheet, Op::RenameSheet(1, SHEETS[1].to_string())];
                let mut tags: Vec<Tag> = vec![];
                let mut excluded = 0u32;
                let ts = if cut && avoid.cross_sheet_cut && ts != src.s {
                    excluded += 1;
                    src.s
                } else {
                    ts
                };
                let (trow, tcol, ov) = disjoint_target(cut && avoid.overlapping_cut && ts == src.s, &src, trow, tcol);
                excluded += ov;
                let mut clean = |t: FTree| -> FTree {
                    if !cut {
                        return t;
                    }
                    let (t, n) = clean_for_cut(t, &avoid);
                    excluded += n;
                    t
                };
                for (s, r, c, v) in values {
                    setup.push(Op::Input { s, row: r, col: c, text: v.to_string() });
                }
                for (s, r, c, t) in plain {
                    let t = clean(t);
                    setup.push(Op::Input { s, row: r, col: c, text: format!("={}", fg::print(&t, &style)) });
                    tags.push(Tag { s, row: r, col: c, class: "formula".into() });
                }
                for (s, r, c, t) in outer {
                    let t = clean(t);
                    setup.push(Op::Input { s, row: r, col: c, text: format!("={}", fg::print(&t, &style)) });
                    tags.push(Tag { s, row: r, col: c, class: "shape-formula".into() });
                }
                for (i, (dr, dc, t)) in inner.into_iter().enumerate() {
                    let t = clean(t);
                    // the first one also reads the last cell of the grid (shifted off it by most copies)
                    let t = if i == 0 {
                        FTree::bin(BinOp::Concat, t, FTree::Ref { sheet: None, cell: fg::CellRef { col: geom2::LAST_COLUMN, row: geom2::LAST_ROW, abs_col: false, abs_row: dr % 2 == 0 } })
                    } else {
                        t
                    };
                    let (r, c) = (src.row + dr % src.h, src.col + dc % src.w);
                    setup.push(Op::Input { s: src.s, row: r, col: c, text: format!("={}", fg::print(&t, &style)) });
                    tags.push(Tag { s: src.s, row: r, col: c, class: "shape-formula".into() });
                }
                Case { language: language.clone(), locale: locale.clone(), flavor: "shape".into(), setup, tags, src: src.clone(), ts, trow, tcol, cut, excluded, restricted: avoid.restricted.clone() }
            })
        })
        .boxed()
}

/// With `on`: a target that overlaps the source (other than the source itself) is moved below it.
fn disjoint_target(on: bool, src: &A, trow: i32, tcol: i32) -> (i32, i32, u32) {
    if !on {
        return (trow, tcol, 0);
    }
    let overlap = trow < src.row + src.h && src.row < trow + src.h && tcol < src.col + src.w && src.col < tcol + src.w;
    if overlap && !(trow == src.row && tcol == src.col) {
        (src.row + src.h, tcol, 1)
    } else {
        (trow, tcol, 0)
    }
}

fn replace_quote_strings(t: &FTree) -> FTree {
    match t {
        FTree::Str(s) if s.contains('"') => FTree::Str("q".to_string()),
        other => fg::map_children(other, &|c| replace_quote_strings(c), &|n| n),
    }
}

pub fn run(ctx: &Ctx) {
    ctx.set_rule(
        "Two-sheet workbooks in every language/locale; source area 1x1..3x3, paste target anywhere around it on the same or the other \
         sheet (overlapping or not); clipboard through serde. Flavour `values`: 16-29 typed values of 16 input classes, 5-9 scalar \
         formulas, styles, links; flavour `shape`: 2-5 formulas of any shape (formula_gen: every operator but `:` between \
         non-references, functions, LET/LAMBDA, arrays, @, #, ghost sheets, grid-edge references) inside the source and 2-4 outside. \
         Non-trivial: (values) the source holds a formula and an outside formula references the source; (shape) the source holds a \
         formula with a nested operator/call or an array literal and an outside formula references the source. Distinct by the case.",
    );
    ctx.assume("ranges that partially overlap the cut area are not asserted, nor are the values of formulas that read them or read a cell overwritten by the paste (transitively)");
    ctx.assume("what is left in the cut cells (emptied, default style) is not asserted: the statement speaks about the pasted cells and about references");
    ctx.assume("copy: only formulas are asserted (the statement says nothing about copied values); CSE arrays and spill cells in the source are skipped");
    ctx.assume("canonical trees identify a+(b+c) with (a+b)+c, numbers beyond 15 significant digits and the case of unknown function names (each a listed C09 finding of the printers)");
    ctx.assume("formulas the parser rejects (ParseError nodes) are not asserted");
    let avoid = avoid_from(ctx);
    let n = match ctx.tier {
        Tier::Quick => 16000,
        Tier::Thorough => 400000,
    };
    let enc = |c: &Case| serde_json::to_value(c).unwrap_or(Value::Null);
    ctx.campaign("values", n, || values_strategy(avoid.clone()), check, enc);
    ctx.campaign("shape-copy", n / 2, || shape_strategy(avoid.clone(), false), check, enc);
    ctx.campaign("shape-cut", n / 2, || shape_strategy(avoid.clone(), true), check, enc);
}

pub fn replay(_ctx: &Ctx, _campaign: &str, case: &Value) -> Result<Outcome, String> {
    let c: Case = serde_json::from_value(case.clone()).map_err(|e| e.to_string())?;
    Ok(check(&c))
}
