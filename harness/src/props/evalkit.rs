//! Helpers shared by the evaluation properties C05, C07 and C31 (builder `i-eval2`).
//!
//! * A1 helpers and a plain `Model` builder over sheets `Sheet1..SheetN` in en/en;
//! * `read_set`: the cells a formula reads, computed from the parser's `Node` (reference leaves
//!   via `engine::nodes::ref_leaves`, ranges expanded over the stored cells, defined names
//!   resolved through the model's name list);
//! * `Graph`: the static dependency graph over formula cells with an iterative Tarjan SCC;
//! * `isolate`: the metamorphic reference of C05 / C31 -- a fresh model in which everything one
//!   formula reads holds the *stored typed value* as a literal and the formula sits at its own
//!   address;
//! * `values` / `structures`: typed values and array structures of a whole workbook.

use std::collections::{BTreeMap, BTreeSet, HashMap};

use ironcalc_base::expressions::parser::Node;
use ironcalc_base::types::{ArrayKind, Cell};
use ironcalc_base::Model;

use crate::engine::nodes::{self, ref_leaves};
use crate::engine::snapshot::{cell_value, sig, typed_value, TV};

pub type Pos = (u32, i32, i32); // sheet, row, column

pub fn col_name(c: i32) -> String {
    ironcalc_base::expressions::utils::number_to_column(c).unwrap_or_else(|| format!("<col{c}>"))
}

pub fn a1(r: i32, c: i32) -> String {
    format!("{}{}", col_name(c), r)
}

pub fn pos_name(p: Pos) -> String {
    format!("Sheet{}!{}", p.0 + 1, a1(p.1, p.2))
}

/// Plain model with sheets `Sheet1..SheetN`, locale/language en.
pub fn new_model(sheets: u8) -> Model<'static> {
    let mut m = Model::new_empty("model", "en", "UTC", "en").expect("new_empty");
    for i in 1..sheets.max(1) {
        let _ = m.add_sheet(&format!("Sheet{}", i + 1));
    }
    m
}

/// Typed comparison key: numbers to 15 significant digits (decimal), everything else exactly.
pub fn key15(v: &TV) -> String {
    match v {
        TV::Num(n) => format!("n:{}", sig(*n, 15)),
        other => other.render(false),
    }
}

/// Parse `A1` / `$A$1` into (row, column).
fn parse_a1(t: &str) -> Option<(i32, i32)> {
    let t = t.replace('$', "");
    let letters: String = t.chars().take_while(|c| c.is_ascii_alphabetic()).collect();
    let digits = &t[letters.len()..];
    if letters.is_empty() || letters.len() > 3 || digits.is_empty() {
        return None;
    }
    let mut col = 0i32;
    for ch in letters.to_ascii_uppercase().chars() {
        col = col * 26 + (ch as i32 - 'A' as i32 + 1);
    }
    let row: i32 = digits.parse().ok()?;
    if !(1..=16_384).contains(&col) || !(1..=1_048_576).contains(&row) {
        return None;
    }
    Some((row, col))
}

/// Rectangle a defined name of the form `Sheet!$A$1` or `Sheet!$A$1:$B$3` points at.
pub fn name_target(model: &Model, formula: &str) -> Option<(u32, i32, i32, i32, i32)> {
    let f = formula.trim().trim_start_matches('=');
    let (sheet, rest) = f.rsplit_once('!')?;
    let sheet = sheet.trim_matches('\'').to_lowercase();
    let si = model.workbook.worksheets.iter().position(|w| w.name.to_lowercase() == sheet)? as u32;
    let mut parts = rest.split(':');
    let a = parse_a1(parts.next()?)?;
    let b = match parts.next() {
        Some(p) => parse_a1(p)?,
        None => a,
    };
    if parts.next().is_some() {
        return None;
    }
    Some((si, a.0.min(b.0), a.1.min(b.1), a.0.max(b.0), a.1.max(b.1)))
}

/// Rectangles (sheet, r1, c1, r2, c2) a formula hosted at `at` reads: reference leaves plus the
/// targets of the defined names it mentions. `None` when something cannot be resolved
/// statically (a name whose definition is not a plain reference, a `#` operator, ...).
pub fn read_rects(model: &Model, node: &Node, at: Pos) -> Option<Vec<(u32, i32, i32, i32, i32)>> {
    read_rects_ext(model, node, at, false)
}

/// As `read_rects`; with `spill_refs` a `X#` operand is resolved to the block the dynamic
/// anchor X currently occupies (its stored width x height) instead of being refused.
pub fn read_rects_ext(model: &Model, node: &Node, at: Pos, spill_refs: bool) -> Option<Vec<(u32, i32, i32, i32, i32)>> {
    let mut out = vec![];
    for l in ref_leaves(node, at.1, at.2) {
        if let Some(s) = l.sheet {
            out.push((s, l.row1, l.col1, l.row2, l.col2));
        }
    }
    let mut ok = true;
    let names = model.get_defined_name_list();
    nodes::walk(node, &mut |n| match n {
        Node::DefinedNameKind((name, scope, _)) => {
            let lname = name.to_lowercase();
            let def = names
                .iter()
                .find(|(n2, sc, _)| n2.to_lowercase() == lname && sc == scope)
                .or_else(|| names.iter().find(|(n2, _, _)| n2.to_lowercase() == lname));
            match def.and_then(|(_, _, f)| name_target(model, f)) {
                Some(t) => out.push(t),
                None => ok = false,
            }
        }
        Node::SpillRangeOperator { child } if spill_refs => {
            for l in ref_leaves(child, at.1, at.2) {
                let Some(s) = l.sheet else { continue };
                if l.is_range {
                    continue;
                }
                if let Some(Cell::ArrayFormula { r, kind: ArrayKind::Dynamic, .. }) =
                    model.workbook.worksheets.get(s as usize).and_then(|ws| ws.cell(l.row1, l.col1))
                {
                    out.push((s, l.row1, l.col1, l.row1 + r.1 - 1, l.col1 + r.0 - 1));
                }
            }
        }
        Node::SpillRangeOperator { .. }
        | Node::OpRangeKind { .. }
        | Node::LambdaDefKind { .. }
        | Node::LambdaCallKind { .. }
        | Node::NamedFunctionKind { .. }
        | Node::TableNameKind(_) => ok = false,
        _ => {}
    });
    if ok {
        Some(out)
    } else {
        None
    }
}

/// Stored cells inside a rectangle (positions that have an entry in `sheet_data`).
pub fn stored_cells_in(model: &Model, rect: (u32, i32, i32, i32, i32)) -> Vec<Pos> {
    let (s, r1, c1, r2, c2) = rect;
    let mut out = vec![];
    let Some(ws) = model.workbook.worksheets.get(s as usize) else { return out };
    let area = (r2 - r1 + 1) as i64 * (c2 - c1 + 1) as i64;
    if area <= 512 {
        for r in r1..=r2 {
            if let Some(rd) = ws.sheet_data.get(&r) {
                for c in c1..=c2 {
                    if rd.contains_key(&c) {
                        out.push((s, r, c));
                    }
                }
            }
        }
    } else {
        for (&r, rd) in &ws.sheet_data {
            if r < r1 || r > r2 {
                continue;
            }
            for &c in rd.keys() {
                if c >= c1 && c <= c2 {
                    out.push((s, r, c));
                }
            }
        }
        out.sort();
    }
    out
}

/// The stored cells a formula reads (deduplicated, sorted).
pub fn read_set(model: &Model, node: &Node, at: Pos) -> Option<Vec<Pos>> {
    read_set_ext(model, node, at, false)
}

pub fn read_set_ext(model: &Model, node: &Node, at: Pos, spill_refs: bool) -> Option<Vec<Pos>> {
    let mut set = BTreeSet::new();
    for rect in read_rects_ext(model, node, at, spill_refs)? {
        for p in stored_cells_in(model, rect) {
            set.insert(p);
        }
    }
    Some(set.into_iter().collect())
}

pub fn node_of<'a>(model: &'a Model, p: Pos) -> Option<&'a Node> {
    let ws = model.workbook.worksheets.get(p.0 as usize)?;
    let f = ws.cell(p.1, p.2)?.get_formula()?;
    model.parsed_formulas.get(p.0 as usize)?.get(f as usize).map(|(n, _)| n)
}

/// Static dependency graph over the formula cells of a workbook.
pub struct Graph {
    pub cells: Vec<Pos>,
    pub index: HashMap<Pos, usize>,
    /// formula cell -> formula cells it reads
    pub succ: Vec<Vec<usize>>,
    /// formula cell -> every stored cell it reads (formula or not)
    pub reads: Vec<Vec<Pos>>,
    /// false when the read set of some formula could not be resolved statically
    pub complete: bool,
    /// SCC id per cell, in Tarjan emission order (an SCC is emitted after everything it reaches)
    pub scc: Vec<usize>,
    pub scc_size: Vec<usize>,
    pub on_cycle: Vec<bool>,
    /// on a cycle or reads (transitively) a cell on a cycle
    pub tainted: Vec<bool>,
    /// longest dependency path (in cells) starting at this cell; 0 for tainted cells
    pub depth: Vec<u32>,
}

impl Graph {
    pub fn build(model: &Model) -> Graph {
        Graph::build_ext(model, false)
    }

    /// `spill_refs`: resolve `X#` operands to the block X currently occupies.
    pub fn build_ext(model: &Model, spill_refs: bool) -> Graph {
        let fcells = nodes::formula_cells(model);
        let mut cells: Vec<Pos> = fcells.iter().map(|(s, r, c, _)| (*s, *r, *c)).collect();
        cells.sort();
        let index: HashMap<Pos, usize> = cells.iter().enumerate().map(|(i, p)| (*p, i)).collect();
        let mut succ = vec![vec![]; cells.len()];
        let mut reads = vec![vec![]; cells.len()];
        let mut complete = true;
        for (s, r, c, node) in fcells {
            let at = (s, r, c);
            let i = index[&at];
            match read_set_ext(model, node, at, spill_refs) {
                Some(rs) => {
                    let mut out: Vec<usize> = rs.iter().filter_map(|p| index.get(p).copied()).collect();
                    if spill_refs {
                        // reading a spill cell demands (and depends on) its anchor
                        for p in &rs {
                            if let Some(Cell::SpillCell { a, .. }) = model.workbook.worksheets[p.0 as usize].cell(p.1, p.2) {
                                if let Some(&j) = index.get(&(p.0, a.0, a.1)) {
                                    if !out.contains(&j) {
                                        out.push(j);
                                    }
                                }
                            }
                        }
                    }
                    succ[i] = out;
                    reads[i] = rs;
                }
                None => complete = false,
            }
        }
        let n = cells.len();
        // iterative Tarjan
        let mut idx = vec![usize::MAX; n];
        let mut low = vec![0usize; n];
        let mut on_stack = vec![false; n];
        let mut stack: Vec<usize> = vec![];
        let mut scc = vec![usize::MAX; n];
        let mut scc_size: Vec<usize> = vec![];
        let mut counter = 0usize;
        for root in 0..n {
            if idx[root] != usize::MAX {
                continue;
            }
            let mut call: Vec<(usize, usize)> = vec![(root, 0)];
            idx[root] = counter;
            low[root] = counter;
            counter += 1;
            stack.push(root);
            on_stack[root] = true;
            while let Some(&mut (v, ref mut ei)) = call.last_mut() {
                if *ei < succ[v].len() {
                    let w = succ[v][*ei];
                    *ei += 1;
                    if idx[w] == usize::MAX {
                        idx[w] = counter;
                        low[w] = counter;
                        counter += 1;
                        stack.push(w);
                        on_stack[w] = true;
                        call.push((w, 0));
                    } else if on_stack[w] {
                        low[v] = low[v].min(idx[w]);
                    }
                } else {
                    if low[v] == idx[v] {
                        let id = scc_size.len();
                        let mut size = 0;
                        loop {
                            let w = stack.pop().expect("tarjan stack");
                            on_stack[w] = false;
                            scc[w] = id;
                            size += 1;
                            if w == v {
                                break;
                            }
                        }
                        scc_size.push(size);
                    }
                    call.pop();
                    if let Some(&(p, _)) = call.last() {
                        low[p] = low[p].min(low[v]);
                    }
                }
            }
        }
        let mut on_cycle = vec![false; n];
        for v in 0..n {
            on_cycle[v] = scc_size[scc[v]] > 1 || succ[v].contains(&v);
        }
        // SCC ids are in reverse topological order: successors have smaller ids (or the same)
        let mut order: Vec<usize> = (0..n).collect();
        order.sort_by_key(|&v| scc[v]);
        let mut scc_taint = vec![false; scc_size.len()];
        for &v in &order {
            if on_cycle[v] || succ[v].iter().any(|&w| scc_taint[scc[w]]) {
                scc_taint[scc[v]] = true;
            }
        }
        let tainted: Vec<bool> = (0..n).map(|v| scc_taint[scc[v]]).collect();
        let mut depth = vec![0u32; n];
        for &v in &order {
            if tainted[v] {
                continue;
            }
            depth[v] = 1 + succ[v].iter().map(|&w| depth[w]).max().unwrap_or(0);
        }
        Graph { cells, index, succ, reads, complete, scc, scc_size, on_cycle, tainted, depth }
    }

    /// sizes of the non-trivial SCCs and the number of self-loops
    pub fn cycle_sizes(&self) -> Vec<usize> {
        let mut seen = BTreeSet::new();
        let mut out = vec![];
        for v in 0..self.cells.len() {
            if self.on_cycle[v] && seen.insert(self.scc[v]) {
                out.push(self.scc_size[self.scc[v]]);
            }
        }
        out
    }
}

/// Write the stored typed value `v` as a literal of the same type into `model` at `p`.
pub fn put_literal(model: &mut Model, p: Pos, v: &TV) -> Result<(), String> {
    match v {
        TV::Empty => Ok(()),
        TV::Num(n) => model.update_cell_with_number(p.0, p.1, p.2, *n),
        TV::Bool(b) => model.update_cell_with_bool(p.0, p.1, p.2, *b),
        TV::Text(s) => model.update_cell_with_text(p.0, p.1, p.2, s),
        TV::Err(kind) => {
            model.set_user_input(p.0, p.1, p.2, kind.clone())?;
            match cell_value(model, p.0, p.1, p.2) {
                TV::Err(k) if &k == kind => Ok(()),
                other => Err(format!("error literal {kind} is stored as {}", other.render(false))),
            }
        }
        TV::Unevaluated => Err("unevaluated cell".into()),
    }
}

/// The metamorphic reference: a fresh model with the same sheets and names in which every cell
/// in `reads` holds the value `source` stores for it (as a typed literal) and `formula` is
/// typed at `at`. Evaluated. `names`: (name, definition) pairs, all global.
pub fn isolate(
    source: &Model,
    names: &[(String, String)],
    reads: &[Pos],
    at: Pos,
    formula: &str,
) -> Result<Model<'static>, String> {
    let mut m = new_model(source.workbook.worksheets.len() as u8);
    for (n, f) in names {
        m.new_defined_name(n, None, f)?;
    }
    for &p in reads {
        if p == at {
            continue;
        }
        let v = cell_value(source, p.0, p.1, p.2);
        put_literal(&mut m, p, &v)?;
    }
    m.set_user_input(at.0, at.1, at.2, formula.to_string())?;
    m.evaluate();
    Ok(m)
}

/// Typed values of every stored, non-empty cell (bit-exact rendering).
pub fn values(model: &Model) -> BTreeMap<Pos, String> {
    let mut out = BTreeMap::new();
    for (si, ws) in model.workbook.worksheets.iter().enumerate() {
        for (&r, rd) in &ws.sheet_data {
            for (&c, cell) in rd {
                let v = typed_value(Some(cell), &model.workbook.shared_strings);
                if v != TV::Empty {
                    out.insert((si as u32, r, c), v.render(false));
                }
            }
        }
    }
    out
}

/// Array structure of every anchor / spill cell: `dyn 2x3`, `cse 2x2`, `spill-of R,C`.
pub fn structures(model: &Model) -> BTreeMap<Pos, String> {
    let mut out = BTreeMap::new();
    for (si, ws) in model.workbook.worksheets.iter().enumerate() {
        for (&r, rd) in &ws.sheet_data {
            for (&c, cell) in rd {
                match cell {
                    Cell::ArrayFormula { r: dims, kind, .. } => {
                        let k = if matches!(kind, ArrayKind::Dynamic) { "dyn" } else { "cse" };
                        out.insert((si as u32, r, c), format!("{k} {}x{}", dims.1, dims.0));
                    }
                    Cell::SpillCell { a, .. } => {
                        out.insert((si as u32, r, c), format!("spill-of {}", a1(a.0, a.1)));
                    }
                    _ => {}
                }
            }
        }
    }
    out
}

/// First differences between two maps, rendered.
pub fn map_diff(a: &BTreeMap<Pos, String>, b: &BTreeMap<Pos, String>, la: &str, lb: &str, max: usize) -> Vec<String> {
    let mut out = vec![];
    let keys: BTreeSet<&Pos> = a.keys().chain(b.keys()).collect();
    for k in keys {
        let (x, y) = (a.get(k), b.get(k));
        if x != y {
            out.push(format!(
                "{}: {la}={} | {lb}={}",
                pos_name(*k),
                x.map(|s| s.as_str()).unwrap_or("<empty>"),
                y.map(|s| s.as_str()).unwrap_or("<empty>")
            ));
            if out.len() >= max {
                break;
            }
        }
    }
    out
}

/// Head of a formula text for signatures: the leading function name, or `expr`.
pub fn formula_head(text: &str) -> String {
    let t = text.trim_start_matches('=');
    let name: String = t.chars().take_while(|c| c.is_ascii_alphanumeric() || *c == '.').collect();
    if !name.is_empty() && t[name.len()..].starts_with('(') && name.chars().next().map(|c| c.is_ascii_alphabetic()).unwrap_or(false) {
        name.to_uppercase()
    } else if t.as_bytes().windows(2).any(|w| w[0].is_ascii_digit() && w[1] == b'#') {
        "spillref".into()
    } else if t.contains(':') {
        "range-expr".into()
    } else {
        "expr".into()
    }
}

/// Dynamic-array anchors of a sheet: (row, column, width, height).
pub fn dynamic_anchors(model: &Model, sheet: u32) -> Vec<(i32, i32, i32, i32)> {
    let mut out = vec![];
    if let Some(ws) = model.workbook.worksheets.get(sheet as usize) {
        for (&r, rd) in &ws.sheet_data {
            for (&c, cell) in rd {
                if let Cell::ArrayFormula { r: dims, kind: ArrayKind::Dynamic, .. } = cell {
                    out.push((r, c, dims.0, dims.1));
                }
            }
        }
    }
    out.sort();
    out
}

/// All dynamic anchors of the workbook with their blocks: (anchor position, width, height).
pub fn all_dynamic_anchors(model: &Model) -> Vec<(Pos, i32, i32)> {
    let mut out = vec![];
    for s in 0..model.workbook.worksheets.len() as u32 {
        for (r, c, w, h) in dynamic_anchors(model, s) {
            out.push(((s, r, c), w, h));
        }
    }
    out
}

/// Targets of the `X#` operands of a formula hosted at `at`.
pub fn spill_ref_targets(node: &Node, at: Pos) -> Vec<Pos> {
    let mut out = vec![];
    nodes::walk(node, &mut |n| {
        if let Node::SpillRangeOperator { child } = n {
            for l in ref_leaves(child, at.1, at.2) {
                if let (Some(s), false) = (l.sheet, l.is_range) {
                    out.push((s, l.row1, l.col1));
                }
            }
        }
    });
    out
}

/// Triggers of the two listed evaluation-order findings, detected on an evaluated workbook.
#[derive(Default, Debug, Clone, PartialEq)]
pub struct SpillTriggers {
    /// the anchors for which `reads_own_spill` holds
    pub own_spill_readers: Vec<Pos>,
    /// the formula cells that raise `demanded_cell_reads_spill`
    pub stale_readers: Vec<Pos>,
    /// the formula cells that raise `spill_ref_before_target`
    pub stale_spill_ref_cells: Vec<Pos>,
    /// the formula cells that raise `anchor_phase_reads_blocked_anchor`
    pub blocked_anchor_readers: Vec<Pos>,
    /// a formula cell that some *other* dynamic anchor reads (transitively) itself reads a
    /// non-anchor position of a dynamic array's spill area: it can be evaluated, on demand,
    /// before that array has spilled in the same pass
    pub demanded_cell_reads_spill: bool,
    /// a formula evaluated in the anchor phase (an anchor, or read by one) uses `X#` where the
    /// dynamic anchor X comes later in (sheet, row, column) order than the anchor that demands it
    pub spill_ref_before_target: bool,
    /// a dynamic anchor reads (transitively) a non-anchor cell of its own spill area
    pub reads_own_spill: bool,
    /// a formula evaluated in the anchor phase reads the cell of another dynamic anchor that
    /// shows #SPILL!: the reader that demands the blocked anchor receives the first element of its
    /// raw array result instead of the stored #SPILL!
    pub anchor_phase_reads_blocked_anchor: bool,
}

pub fn spill_triggers(model: &Model) -> SpillTriggers {
    let mut t = SpillTriggers::default();
    let anchors = all_dynamic_anchors(model);
    if anchors.is_empty() {
        return t;
    }
    let g = Graph::build_ext(model, true);
    let owner = |p: &Pos| -> Option<Pos> {
        anchors
            .iter()
            .find(|(a, w, h)| p.0 == a.0 && p.1 >= a.1 && p.1 < a.1 + h && p.2 >= a.2 && p.2 < a.2 + w && *p != *a)
            .map(|(a, _, _)| *a)
    };
    for (a, _, _) in &anchors {
        let Some(&root) = g.index.get(a) else { continue };
        // cells demanded by this anchor (excluding itself unless on a cycle)
        let mut seen = vec![false; g.cells.len()];
        let mut stack = vec![root];
        let mut first = true;
        while let Some(v) = stack.pop() {
            // `#` operands of v (v is the root or demanded by it)
            if let Some(node) = node_of(model, g.cells[v]) {
                for x in spill_ref_targets(node, g.cells[v]) {
                    if anchors.iter().any(|(q, _, _)| *q == x) && *a < x {
                        t.spill_ref_before_target = true;
                        if !t.stale_spill_ref_cells.contains(&g.cells[v]) {
                            t.stale_spill_ref_cells.push(g.cells[v]);
                        }
                    }
                }
            }
            for p in &g.reads[v] {
                if *p != g.cells[v]
                    && anchors.iter().any(|(q, w, h)| q == p && (*w, *h) == (1, 1))
                    && matches!(cell_value(model, p.0, p.1, p.2), TV::Err(k) if k == "#SPILL!")
                {
                    t.anchor_phase_reads_blocked_anchor = true;
                    if !t.blocked_anchor_readers.contains(&g.cells[v]) {
                        t.blocked_anchor_readers.push(g.cells[v]);
                    }
                }
            }
            if !first || v != root {
                for p in &g.reads[v] {
                    if let Some(q) = owner(p) {
                        if q == *a {
                            t.reads_own_spill = true;
                            if !t.own_spill_readers.contains(a) {
                                t.own_spill_readers.push(*a);
                            }
                        } else if q != g.cells[v] {
                            t.demanded_cell_reads_spill = true;
                            if !t.stale_readers.contains(&g.cells[v]) {
                                t.stale_readers.push(g.cells[v]);
                            }
                        }
                    }
                }
            } else {
                for p in &g.reads[v] {
                    if owner(p) == Some(*a) {
                        t.reads_own_spill = true;
                        if !t.own_spill_readers.contains(a) {
                            t.own_spill_readers.push(*a);
                        }
                    }
                }
            }
            first = false;
            for &w in &g.succ[v] {
                if !seen[w] {
                    seen[w] = true;
                    stack.push(w);
                }
            }
        }
    }
    t
}

/// What a dynamic-array (or any) formula produces when nothing is in its way: computed by the
/// engine itself on a fresh workbook that holds only the stored values of the cells the formula
/// reads (typed literals; `X#` operands see a literal array with X's current block).
#[derive(Debug, Clone, PartialEq)]
pub enum RefResult {
    Scalar(TV),
    /// width, height, elements by row
    Array(i32, i32, Vec<Vec<TV>>),
    /// even in isolation the formula shows #SPILL!: its block leaves the grid or covers cells
    /// it reads (which hold content in the real workbook too)
    SpillInIsolation,
    Unknown(&'static str),
}

fn literal_text(v: &TV) -> Option<String> {
    match v {
        TV::Num(n) if n.is_finite() => Some(format!("{n:?}")),
        TV::Bool(b) => Some(if *b { "TRUE".into() } else { "FALSE".into() }),
        TV::Text(s) if !s.contains('"') => Some(format!("\"{s}\"")),
        TV::Err(k) => Some(k.clone()),
        // an empty element of a spill cannot occur (empties spill as 0)
        _ => None,
    }
}

pub fn reference_result(model: &Model, at: Pos) -> RefResult {
    let Some(node) = node_of(model, at) else { return RefResult::Unknown("no-formula") };
    let text = match model.get_cell_formula(at.0, at.1, at.2) {
        Ok(Some(t)) => t,
        _ => return RefResult::Unknown("no-formula-text"),
    };
    let own_block: Option<(i32, i32)> = match model.workbook.worksheets[at.0 as usize].cell(at.1, at.2) {
        Some(Cell::ArrayFormula { r, kind: ArrayKind::Dynamic, .. }) => Some(*r),
        Some(Cell::ArrayFormula { .. }) => return RefResult::Unknown("cse-array"),
        _ => None,
    };
    // `#` operands: the target must be a dynamic anchor that is not in error
    let targets = spill_ref_targets(node, at);
    let mut literal_anchors: Vec<(Pos, String, i32, i32)> = vec![];
    for x in &targets {
        if *x == at {
            return RefResult::Unknown("reads-own-spill");
        }
        let Some(ws) = model.workbook.worksheets.get(x.0 as usize) else { return RefResult::Unknown("spill-ref-sheet") };
        match ws.cell(x.1, x.2) {
            Some(Cell::ArrayFormula { r, kind: ArrayKind::Dynamic, .. }) => {
                if matches!(cell_value(model, x.0, x.1, x.2), TV::Err(_)) && *r == (1, 1) {
                    return RefResult::Unknown("spill-ref-to-error-anchor");
                }
                let mut rows = vec![];
                for rr in x.1..x.1 + r.1 {
                    let mut row = vec![];
                    for cc in x.2..x.2 + r.0 {
                        match literal_text(&cell_value(model, x.0, rr, cc)) {
                            Some(t) => row.push(t),
                            None => return RefResult::Unknown("spill-ref-block-not-literal"),
                        }
                    }
                    rows.push(row.join(","));
                }
                literal_anchors.push((*x, format!("={{{}}}", rows.join(";")), r.0, r.1));
            }
            _ => return RefResult::Unknown("spill-ref-to-non-anchor"),
        }
    }
    let Some(rects) = read_rects_ext(model, node, at, false).or_else(|| {
        // `#` operands are handled above; everything else must resolve
        let mut only_hash = true;
        nodes::walk(node, &mut |n| {
            if matches!(n, Node::OpRangeKind { .. } | Node::LambdaDefKind { .. } | Node::LambdaCallKind { .. } | Node::NamedFunctionKind { .. } | Node::TableNameKind(_) | Node::DefinedNameKind(_)) {
                only_hash = false;
            }
        });
        if only_hash {
            Some(ref_leaves(node, at.1, at.2).into_iter().filter_map(|l| l.sheet.map(|s| (s, l.row1, l.col1, l.row2, l.col2))).collect())
        } else {
            None
        }
    }) else {
        return RefResult::Unknown("unresolved-read-set");
    };
    let mut m = new_model(model.workbook.worksheets.len() as u8);
    let in_literal_anchor = |p: &Pos| literal_anchors.iter().any(|(x, _, w, h)| p.0 == x.0 && p.1 >= x.1 && p.1 < x.1 + h && p.2 >= x.2 && p.2 < x.2 + w);
    for rect in rects {
        for p in stored_cells_in(model, rect) {
            if p == at || in_literal_anchor(&p) {
                continue;
            }
            if let Some((w, h)) = own_block {
                if p.0 == at.0 && p.1 >= at.1 && p.1 < at.1 + h && p.2 >= at.2 && p.2 < at.2 + w {
                    if matches!(model.workbook.worksheets[p.0 as usize].cell(p.1, p.2), Some(Cell::SpillCell { a, .. }) if *a == (at.1, at.2)) {
                        return RefResult::Unknown("reads-own-spill");
                    }
                }
            }
            let v = cell_value(model, p.0, p.1, p.2);
            if put_literal(&mut m, p, &v).is_err() {
                return RefResult::Unknown("literal-rejected");
            }
        }
    }
    for (x, t, _, _) in &literal_anchors {
        if m.set_user_input(x.0, x.1, x.2, t.clone()).is_err() {
            return RefResult::Unknown("literal-rejected");
        }
    }
    if m.set_user_input(at.0, at.1, at.2, text).is_err() {
        return RefResult::Unknown("formula-rejected");
    }
    m.evaluate();
    if !literal_anchors.is_empty() {
        // the reference workbook must not depend on the order in which the engine evaluates the
        // literal arrays and their reader (listed finding spill-ref-before-target): the literal
        // arrays are constant, so a second pass sees their final sizes
        m.evaluate();
        m.evaluate();
    }
    // the literal anchors must have spilled as intended
    for (x, _, w, h) in &literal_anchors {
        match m.workbook.worksheets[x.0 as usize].cell(x.1, x.2) {
            Some(Cell::ArrayFormula { r, .. }) if *r == (*w, *h) => {}
            _ => return RefResult::Unknown("literal-anchor-blocked"),
        }
    }
    match m.workbook.worksheets[at.0 as usize].cell(at.1, at.2) {
        Some(Cell::ArrayFormula { r, kind: ArrayKind::Dynamic, .. }) => {
            let v = cell_value(&m, at.0, at.1, at.2);
            if matches!(&v, TV::Err(k) if k == "#SPILL!") && *r == (1, 1) {
                return RefResult::SpillInIsolation;
            }
            let (w, h) = *r;
            let mut els = vec![];
            for rr in at.1..at.1 + h {
                let mut row = vec![];
                for cc in at.2..at.2 + w {
                    row.push(cell_value(&m, at.0, rr, cc));
                }
                els.push(row);
            }
            RefResult::Array(w, h, els)
        }
        Some(Cell::CellFormula { .. }) => RefResult::Scalar(cell_value(&m, at.0, at.1, at.2)),
        _ => RefResult::Unknown("unexpected-cell-kind"),
    }
}

/// Does the formula at `p` produce an *empty reference* (its result, or for an array result its
/// first element, is a reference to an empty cell, possibly through other such formulas, IF /
/// IFERROR / IFNA / CHOOSE branches, TRANSPOSE, `@`, or a defined name)? The engine stores 0 for
/// such a cell. An empty (or missing) cell itself counts as yielding empty.
pub fn yields_empty(model: &Model, p: Pos, _fuel: u32) -> bool {
    let mut memo = HashMap::new();
    yields_empty_memo(model, p, &mut memo)
}

/// Memoised form (a cell in progress counts as not yielding empty: cycles show #CIRC!).
pub fn yields_empty_memo(model: &Model, p: Pos, memo: &mut HashMap<Pos, Option<bool>>) -> bool {
    if let Some(known) = memo.get(&p) {
        return known.unwrap_or(false);
    }
    let Some(ws) = model.workbook.worksheets.get(p.0 as usize) else { return false };
    let r = match ws.cell(p.1, p.2) {
        None | Some(Cell::EmptyCell { .. }) => true,
        Some(c) if c.get_formula().is_some() => {
            memo.insert(p, None);
            match node_of(model, p) {
                Some(node) => node_yields_empty(model, node, p, memo),
                None => false,
            }
        }
        _ => false,
    };
    memo.insert(p, Some(r));
    r
}

fn node_yields_empty(model: &Model, node: &Node, at: Pos, memo: &mut HashMap<Pos, Option<bool>>) -> bool {
    match node {
        Node::ReferenceKind { .. } | Node::RangeKind { .. } => match ref_leaves(node, at.1, at.2).first().and_then(|l| l.sheet.map(|s| (s, l.row1, l.col1))) {
            Some(t) => t != at && yields_empty_memo(model, t, memo),
            None => false,
        },
        Node::DefinedNameKind((_, _, f)) => match name_target(model, f) {
            Some(t) => yields_empty_memo(model, (t.0, t.1, t.2), memo),
            None => false,
        },
        Node::ImplicitIntersection { child, .. } => node_yields_empty(model, child, at, memo),
        Node::FunctionKind { kind, args } => {
            let name = format!("{kind:?}").to_lowercase();
            match name.as_str() {
                "if" | "iferror" | "ifna" | "choose" | "transpose" => {
                    let mut any = false;
                    for a in args {
                        if node_yields_empty(model, a, at, memo) {
                            any = true;
                            break;
                        }
                    }
                    any
                }
                _ => false,
            }
        }
        _ => false,
    }
}

/// Listed finding: a formula whose result is an empty reference hands `empty` to the reader that
/// demands its evaluation but `0` to every later reader. True when some formula (or anchor)
/// yields empty and another formula reads its cell.
pub fn empty_result_is_read(model: &Model, g: &Graph) -> bool {
    let mut memo = HashMap::new();
    let yielders: BTreeSet<Pos> = g.cells.iter().copied().filter(|p| yields_empty_memo(model, *p, &mut memo)).collect();
    if yielders.is_empty() {
        return false;
    }
    (0..g.cells.len()).any(|v| g.reads[v].iter().any(|p| *p != g.cells[v] && yielders.contains(p)))
}

/// Listed finding (second face of the same root cause as `yields_empty`): a formula whose
/// top-level node is an arithmetic operator stores #NUM! although none of the cells it reads
/// shows #NUM! -- its raw result was a non-finite number, which the reader that demanded the
/// evaluation receives as a number while the cell stores #NUM!.
pub fn arithmetic_overflow_cell(model: &Model, g: &Graph, p: Pos) -> bool {
    let Some(&v) = g.index.get(&p) else { return false };
    if !matches!(cell_value(model, p.0, p.1, p.2), TV::Err(k) if k == "#NUM!") {
        return false;
    }
    let Some(node) = node_of(model, p) else { return false };
    let arithmetic = matches!(
        node,
        Node::OpSumKind { .. } | Node::OpProductKind { .. } | Node::OpPowerKind { .. } | Node::UnaryKind { .. }
    );
    arithmetic && !g.reads[v].iter().any(|q| matches!(cell_value(model, q.0, q.1, q.2), TV::Err(k) if k == "#NUM!"))
}


/// Does the formula at `root`, or any formula it (transitively) reads, read one of `positions`
/// (tested against the rectangles of the reference leaves, so empty positions count too)?
pub fn reach_reads_any(model: &Model, g: &Graph, root: Pos, positions: &BTreeSet<Pos>) -> bool {
    if positions.is_empty() {
        return false;
    }
    let Some(&r) = g.index.get(&root) else { return false };
    let mut seen = vec![false; g.cells.len()];
    let mut stack = vec![r];
    seen[r] = true;
    while let Some(v) = stack.pop() {
        let at = g.cells[v];
        if let Some(node) = node_of(model, at) {
            if let Some(rects) = read_rects_ext(model, node, at, true) {
                for (s, r1, c1, r2, c2) in rects {
                    if positions.iter().any(|p| p.0 == s && p.1 >= r1 && p.1 <= r2 && p.2 >= c1 && p.2 <= c2) {
                        return true;
                    }
                }
            }
        }
        for &w in &g.succ[v] {
            if !seen[w] {
                seen[w] = true;
                stack.push(w);
            }
        }
    }
    false
}

/// Some dynamic anchors depend on each other in a cycle (which uses up the restart budget of
/// `Model::evaluate`, which then falls through to natural order) and the formula at `a` (an anchor
/// or a plain formula) reads a non-anchor cell in the block of another anchor, i.e. it may be
/// evaluated before that block is written.
pub fn needs_reorder_while_starved(model: &Model, g: &Graph, anchors: &[(Pos, i32, i32)], a: Pos) -> bool {
    let cyclic = anchors.iter().any(|(q, _, _)| g.index.get(q).map(|&i| g.on_cycle[i]).unwrap_or(false));
    if !cyclic {
        return false;
    }
    let Some(node) = node_of(model, a) else { return false };
    let Some(rects) = read_rects_ext(model, node, a, true) else { return false };
    anchors.iter().any(|(q, w, h)| {
        // (the reader may be demanded early by an anchor that precedes q, so its own position
        // relative to q does not matter)
        *q != a
            && rects.iter().any(|&(s, r1, c1, r2, c2)| {
                // the rectangle meets the block of q somewhere else than q's own cell
                s == q.0
                    && (q.1..q.1 + h).any(|r| (q.2..q.2 + w).any(|c| (r, c) != (q.1, q.2) && r >= r1 && r <= r2 && c >= c1 && c <= c2))
            })
    })
}



/// Anchor-level circularity through *would-be* blocks: starting at the anchor `a`, follow the
/// static reads, where reading any non-anchor position of the block an anchor Q would fill
/// (`blocks`: anchor -> width, height of its reference result or, failing that, its stored
/// block) counts as reading Q. True when `a` is reached again.
pub fn circular_through_would_be_blocks(model: &Model, g: &Graph, blocks: &BTreeMap<Pos, (i32, i32)>, a: Pos) -> bool {
    let Some(&root) = g.index.get(&a) else { return false };
    let mut seen = vec![false; g.cells.len()];
    let mut stack = vec![root];
    let mut first = true;
    while let Some(v) = stack.pop() {
        if v == root && !first {
            return true;
        }
        first = false;
        let at = g.cells[v];
        let mut next: Vec<usize> = g.succ[v].clone();
        if let Some(rects) = node_of(model, at).and_then(|n| read_rects_ext(model, n, at, true)) {
            for (q, (w, h)) in blocks {
                let meets = rects.iter().any(|&(s, r1, c1, r2, c2)| {
                    s == q.0 && (q.1..q.1 + h).any(|r| (q.2..q.2 + w).any(|c| (r, c) != (q.1, q.2) && r >= r1 && r <= r2 && c >= c1 && c <= c2))
                });
                if meets {
                    if let Some(&j) = g.index.get(q) {
                        next.push(j);
                    }
                }
            }
        }
        for w in next {
            if w == root {
                return true;
            }
            if !seen[w] {
                seen[w] = true;
                stack.push(w);
            }
        }
    }
    false
}
