//! Structure-aware mutation of xlsx packages (shared by the C25 check and the cargo-fuzz target,
//! which includes this file by path). Pure: no engine calls, no randomness; every function is
//! total on arbitrary bytes.

#![allow(dead_code)]

use std::io::{Cursor, Read, Write};

use serde::{Deserialize, Serialize};

pub type Parts = Vec<(String, Vec<u8>)>;

/// Unpack a zip archive into (part name, bytes) in archive order. Directories are dropped.
pub fn unpack(bytes: &[u8]) -> Option<Parts> {
    let mut archive = zip::ZipArchive::new(Cursor::new(bytes)).ok()?;
    let mut parts = vec![];
    for i in 0..archive.len() {
        let mut f = archive.by_index(i).ok()?;
        if f.is_dir() {
            continue;
        }
        let mut data = vec![];
        f.read_to_end(&mut data).ok()?;
        parts.push((f.name().to_string(), data));
    }
    Some(parts)
}

pub fn pack(parts: &Parts, stored: bool) -> Vec<u8> {
    let mut zw = zip::ZipWriter::new(Cursor::new(Vec::new()));
    let method = if stored { zip::CompressionMethod::Stored } else { zip::CompressionMethod::Deflated };
    let options = zip::write::FileOptions::default().compression_method(method);
    for (name, data) in parts {
        // duplicate names are legal at this layer; an Err (e.g. over-long name) drops the part
        if zw.start_file(name.clone(), options).is_ok() {
            let _ = zw.write_all(data);
        }
    }
    match zw.finish() {
        Ok(c) => c.into_inner(),
        Err(_) => vec![],
    }
}

// ------------------------------------------------------------------------------------------
// a tolerant XML tag scanner

#[derive(Clone, Copy, Debug, PartialEq)]
pub enum TagKind {
    Open,
    Close,
    SelfClose,
}

#[derive(Clone, Debug)]
pub struct Attr {
    pub name: (usize, usize),
    /// the value without its quotes
    pub value: (usize, usize),
    /// from the whitespace before the name to the closing quote (what to delete)
    pub whole: (usize, usize),
}

#[derive(Clone, Debug)]
pub struct Tag {
    pub start: usize,
    /// one past '>'
    pub end: usize,
    pub kind: TagKind,
    pub name: (usize, usize),
    pub attrs: Vec<Attr>,
}

fn find(hay: &[u8], from: usize, needle: &[u8]) -> Option<usize> {
    if needle.is_empty() || from > hay.len() {
        return None;
    }
    hay[from..].windows(needle.len()).position(|w| w == needle).map(|p| p + from)
}

fn is_ws(b: u8) -> bool {
    b == b' ' || b == b'\t' || b == b'\n' || b == b'\r'
}

/// All element tags of `xml`, in document order. Stops quietly at the first thing it cannot read.
pub fn scan(xml: &[u8]) -> Vec<Tag> {
    let n = xml.len();
    let mut tags = vec![];
    let mut i = 0;
    while i < n {
        if xml[i] != b'<' {
            i += 1;
            continue;
        }
        let rest = &xml[i..];
        if rest.starts_with(b"<!--") {
            match find(xml, i + 4, b"-->") {
                Some(p) => i = p + 3,
                None => break,
            }
            continue;
        }
        if rest.starts_with(b"<![CDATA[") {
            match find(xml, i + 9, b"]]>") {
                Some(p) => i = p + 3,
                None => break,
            }
            continue;
        }
        if rest.starts_with(b"<?") {
            match find(xml, i + 2, b"?>") {
                Some(p) => i = p + 2,
                None => break,
            }
            continue;
        }
        if rest.starts_with(b"<!") {
            match find(xml, i + 2, b">") {
                Some(p) => i = p + 1,
                None => break,
            }
            continue;
        }
        let start = i;
        let close = rest.starts_with(b"</");
        let mut j = i + if close { 2 } else { 1 };
        let name_start = j;
        while j < n && !is_ws(xml[j]) && xml[j] != b'>' && xml[j] != b'/' {
            j += 1;
        }
        let name = (name_start, j);
        if name.0 == name.1 {
            i += 1;
            continue;
        }
        let mut attrs = vec![];
        let mut kind = if close { TagKind::Close } else { TagKind::Open };
        let mut ok = false;
        loop {
            let ws_start = j;
            while j < n && is_ws(xml[j]) {
                j += 1;
            }
            if j >= n {
                break;
            }
            if xml[j] == b'>' {
                j += 1;
                ok = true;
                break;
            }
            if xml[j] == b'/' {
                if j + 1 < n && xml[j + 1] == b'>' {
                    kind = TagKind::SelfClose;
                    j += 2;
                    ok = true;
                }
                break;
            }
            let an = j;
            while j < n && xml[j] != b'=' && !is_ws(xml[j]) && xml[j] != b'>' && xml[j] != b'/' {
                j += 1;
            }
            let an_end = j;
            while j < n && is_ws(xml[j]) {
                j += 1;
            }
            if j >= n || xml[j] != b'=' {
                break;
            }
            j += 1;
            while j < n && is_ws(xml[j]) {
                j += 1;
            }
            if j >= n || (xml[j] != b'"' && xml[j] != b'\'') {
                break;
            }
            let q = xml[j];
            let vs = j + 1;
            let Some(ve) = find(xml, vs, &[q]) else { break };
            j = ve + 1;
            attrs.push(Attr { name: (an, an_end), value: (vs, ve), whole: (ws_start, j) });
        }
        if !ok {
            // unreadable tag: skip the '<' and go on
            i = start + 1;
            continue;
        }
        tags.push(Tag { start, end: j, kind, name, attrs });
        i = j;
    }
    tags
}

fn tag_name<'a>(xml: &'a [u8], t: &Tag) -> &'a [u8] {
    &xml[t.name.0..t.name.1]
}

/// Index (into `tags`) of the `nth` opening (or self-closing) tag called `name`.
pub fn find_element(xml: &[u8], tags: &[Tag], name: &str, nth: usize) -> Option<usize> {
    let mut k = 0;
    for (i, t) in tags.iter().enumerate() {
        if t.kind != TagKind::Close && tag_name(xml, t) == name.as_bytes() {
            if k == nth {
                return Some(i);
            }
            k += 1;
        }
    }
    None
}

/// Byte extent of the element opened by `tags[i]` and the index of its closing tag, if any.
pub fn element_extent(tags: &[Tag], i: usize) -> (usize, usize, Option<usize>) {
    let t = &tags[i];
    if t.kind != TagKind::Open {
        return (t.start, t.end, None);
    }
    let mut depth = 0i64;
    for (j, u) in tags.iter().enumerate().skip(i) {
        match u.kind {
            TagKind::Open => depth += 1,
            TagKind::Close => {
                depth -= 1;
                if depth == 0 {
                    return (t.start, u.end, Some(j));
                }
            }
            TagKind::SelfClose => {}
        }
    }
    (t.start, t.end, None)
}

// ------------------------------------------------------------------------------------------
// the mutation language

#[derive(Clone, Debug, PartialEq, Serialize, Deserialize)]
pub enum Mut {
    // package level
    DropPart { part: String },
    EmptyPart { part: String },
    RenamePart { part: String, to: String },
    DuplicatePart { part: String, to: String },
    /// replace the content of `part` by the content of another part of the package
    SwapContent { part: String, with: String },
    TruncatePart { part: String, keep_ppm: u32 },
    // element level (textual)
    DropElement { part: String, tag: String, nth: usize },
    DuplicateElement { part: String, tag: String, nth: usize },
    /// move the element to just after the opening tag of another element (or to the end of the
    /// part when that one does not exist)
    MoveElement { part: String, tag: String, nth: usize, into_tag: String, into_nth: usize },
    /// remove the tags of the element, keep its children
    UnwrapElement { part: String, tag: String, nth: usize },
    /// keep the tags, remove the content
    EmptyElement { part: String, tag: String, nth: usize },
    RenameElement { part: String, tag: String, nth: usize, to: String },
    // attribute / text level
    DropAttr { part: String, tag: String, nth: usize, attr: String },
    /// set (or add) an attribute
    SetAttr { part: String, tag: String, nth: usize, attr: String, value: String },
    SetText { part: String, tag: String, nth: usize, text: String },
    // byte level
    FlipBit { part: String, at_ppm: u32, bit: u8 },
    InsertBytes { part: String, at_ppm: u32, bytes: Vec<u8> },
    // zip level (applied to the re-zipped package, after everything else)
    ZipStored,
    ZipTruncate { keep_ppm: u32 },
    ZipFlipBit { at_ppm: u32, bit: u8 },
}

impl Mut {
    pub fn kind(&self) -> &'static str {
        match self {
            Mut::DropPart { .. } => "DropPart",
            Mut::EmptyPart { .. } => "EmptyPart",
            Mut::RenamePart { .. } => "RenamePart",
            Mut::DuplicatePart { .. } => "DuplicatePart",
            Mut::SwapContent { .. } => "SwapContent",
            Mut::TruncatePart { .. } => "TruncatePart",
            Mut::DropElement { .. } => "DropElement",
            Mut::DuplicateElement { .. } => "DuplicateElement",
            Mut::MoveElement { .. } => "MoveElement",
            Mut::UnwrapElement { .. } => "UnwrapElement",
            Mut::EmptyElement { .. } => "EmptyElement",
            Mut::RenameElement { .. } => "RenameElement",
            Mut::DropAttr { .. } => "DropAttr",
            Mut::SetAttr { .. } => "SetAttr",
            Mut::SetText { .. } => "SetText",
            Mut::FlipBit { .. } => "FlipBit",
            Mut::InsertBytes { .. } => "InsertBytes",
            Mut::ZipStored => "ZipStored",
            Mut::ZipTruncate { .. } => "ZipTruncate",
            Mut::ZipFlipBit { .. } => "ZipFlipBit",
        }
    }
    /// Short description of the place a mutation touches (signature fragment).
    pub fn target(&self) -> String {
        // sheet1.xml, sheet2.xml ... are the same kind of part
        fn part_class(p: &str) -> String {
            let base = p.rsplit('/').next().unwrap_or(p);
            let stem: String = base.chars().filter(|c| !c.is_ascii_digit()).collect();
            if p.contains("_rels/") {
                format!("rels/{stem}")
            } else {
                stem
            }
        }
        match self {
            Mut::DropPart { part }
            | Mut::EmptyPart { part }
            | Mut::RenamePart { part, .. }
            | Mut::DuplicatePart { part, .. }
            | Mut::SwapContent { part, .. }
            | Mut::TruncatePart { part, .. }
            | Mut::FlipBit { part, .. }
            | Mut::InsertBytes { part, .. } => part_class(part),
            Mut::DropElement { part, tag, .. }
            | Mut::DuplicateElement { part, tag, .. }
            | Mut::MoveElement { part, tag, .. }
            | Mut::UnwrapElement { part, tag, .. }
            | Mut::EmptyElement { part, tag, .. }
            | Mut::RenameElement { part, tag, .. }
            | Mut::SetText { part, tag, .. } => format!("{}<{tag}>", part_class(part)),
            Mut::DropAttr { part, tag, attr, .. } | Mut::SetAttr { part, tag, attr, .. } => {
                format!("{}<{tag} {attr}>", part_class(part))
            }
            Mut::ZipStored | Mut::ZipTruncate { .. } | Mut::ZipFlipBit { .. } => "zip".to_string(),
        }
    }
}

fn part_index(parts: &Parts, name: &str) -> Option<usize> {
    parts.iter().position(|(n, _)| n == name)
}

fn ppm(len: usize, at_ppm: u32) -> usize {
    ((len as u128 * (at_ppm.min(1_000_000) as u128)) / 1_000_000) as usize
}

fn escape_attr(v: &str) -> String {
    // the value is inserted verbatim except for the quote that would end it; '<' and '&' stay
    // as they are on purpose (they produce malformed XML, which is a legitimate test)
    v.replace('"', "&quot;")
}

/// Apply one part-level mutation. Returns false when the mutation did not apply (no such part /
/// element / attribute): a no-op.
pub fn apply(parts: &mut Parts, m: &Mut) -> bool {
    match m {
        Mut::DropPart { part } => match part_index(parts, part) {
            Some(i) => {
                parts.remove(i);
                true
            }
            None => false,
        },
        Mut::EmptyPart { part } => match part_index(parts, part) {
            Some(i) => {
                parts[i].1.clear();
                true
            }
            None => false,
        },
        Mut::RenamePart { part, to } => match part_index(parts, part) {
            Some(i) => {
                parts[i].0 = to.clone();
                true
            }
            None => false,
        },
        Mut::DuplicatePart { part, to } => match part_index(parts, part) {
            Some(i) => {
                let d = parts[i].1.clone();
                parts.push((to.clone(), d));
                true
            }
            None => false,
        },
        Mut::SwapContent { part, with } => match (part_index(parts, part), part_index(parts, with)) {
            (Some(i), Some(j)) if i != j => {
                parts[i].1 = parts[j].1.clone();
                true
            }
            _ => false,
        },
        Mut::TruncatePart { part, keep_ppm } => match part_index(parts, part) {
            Some(i) => {
                let k = ppm(parts[i].1.len(), *keep_ppm);
                parts[i].1.truncate(k);
                true
            }
            None => false,
        },
        Mut::FlipBit { part, at_ppm, bit } => match part_index(parts, part) {
            Some(i) if !parts[i].1.is_empty() => {
                let n = parts[i].1.len();
                let k = ppm(n, *at_ppm).min(n - 1);
                parts[i].1[k] ^= 1 << (bit % 8);
                true
            }
            _ => false,
        },
        Mut::InsertBytes { part, at_ppm, bytes } => match part_index(parts, part) {
            Some(i) => {
                let k = ppm(parts[i].1.len(), *at_ppm);
                let tail = parts[i].1.split_off(k);
                parts[i].1.extend_from_slice(bytes);
                parts[i].1.extend_from_slice(&tail);
                true
            }
            None => false,
        },
        Mut::DropElement { part, tag, nth }
        | Mut::DuplicateElement { part, tag, nth }
        | Mut::UnwrapElement { part, tag, nth }
        | Mut::EmptyElement { part, tag, nth } => {
            let Some(pi) = part_index(parts, part) else { return false };
            let xml = parts[pi].1.clone();
            let tags = scan(&xml);
            let Some(ti) = find_element(&xml, &tags, tag, *nth) else { return false };
            let (s, e, close) = element_extent(&tags, ti);
            let mut out = Vec::with_capacity(xml.len() + (e - s));
            match m {
                Mut::DropElement { .. } => {
                    out.extend_from_slice(&xml[..s]);
                    out.extend_from_slice(&xml[e..]);
                }
                Mut::DuplicateElement { .. } => {
                    out.extend_from_slice(&xml[..e]);
                    out.extend_from_slice(&xml[s..e]);
                    out.extend_from_slice(&xml[e..]);
                }
                Mut::UnwrapElement { .. } => {
                    out.extend_from_slice(&xml[..s]);
                    if let Some(c) = close {
                        out.extend_from_slice(&xml[tags[ti].end..tags[c].start]);
                    }
                    out.extend_from_slice(&xml[e..]);
                }
                _ => {
                    // EmptyElement
                    match close {
                        Some(c) => {
                            out.extend_from_slice(&xml[..tags[ti].end]);
                            out.extend_from_slice(&xml[tags[c].start..]);
                        }
                        None => return false,
                    }
                }
            }
            parts[pi].1 = out;
            true
        }
        Mut::MoveElement { part, tag, nth, into_tag, into_nth } => {
            let Some(pi) = part_index(parts, part) else { return false };
            let xml = parts[pi].1.clone();
            let tags = scan(&xml);
            let Some(ti) = find_element(&xml, &tags, tag, *nth) else { return false };
            let (s, e, _) = element_extent(&tags, ti);
            let element = xml[s..e].to_vec();
            let mut rest = Vec::with_capacity(xml.len());
            rest.extend_from_slice(&xml[..s]);
            rest.extend_from_slice(&xml[e..]);
            let rtags = scan(&rest);
            let at = match find_element(&rest, &rtags, into_tag, *into_nth) {
                Some(k) if rtags[k].kind == TagKind::Open => rtags[k].end,
                Some(k) => rtags[k].end,
                None => rest.len(),
            };
            let tail = rest.split_off(at);
            rest.extend_from_slice(&element);
            rest.extend_from_slice(&tail);
            parts[pi].1 = rest;
            true
        }
        Mut::RenameElement { part, tag, nth, to } => {
            let Some(pi) = part_index(parts, part) else { return false };
            let xml = parts[pi].1.clone();
            let tags = scan(&xml);
            let Some(ti) = find_element(&xml, &tags, tag, *nth) else { return false };
            let (_, _, close) = element_extent(&tags, ti);
            let mut out = Vec::with_capacity(xml.len() + 2 * to.len());
            let open = &tags[ti];
            out.extend_from_slice(&xml[..open.name.0]);
            out.extend_from_slice(to.as_bytes());
            match close {
                Some(c) => {
                    out.extend_from_slice(&xml[open.name.1..tags[c].name.0]);
                    out.extend_from_slice(to.as_bytes());
                    out.extend_from_slice(&xml[tags[c].name.1..]);
                }
                None => out.extend_from_slice(&xml[open.name.1..]),
            }
            parts[pi].1 = out;
            true
        }
        Mut::DropAttr { part, tag, nth, attr } => {
            let Some(pi) = part_index(parts, part) else { return false };
            let xml = parts[pi].1.clone();
            let tags = scan(&xml);
            let Some(ti) = find_element(&xml, &tags, tag, *nth) else { return false };
            let Some(a) = tags[ti].attrs.iter().find(|a| &xml[a.name.0..a.name.1] == attr.as_bytes()) else {
                return false;
            };
            let mut out = Vec::with_capacity(xml.len());
            out.extend_from_slice(&xml[..a.whole.0]);
            out.extend_from_slice(&xml[a.whole.1..]);
            parts[pi].1 = out;
            true
        }
        Mut::SetAttr { part, tag, nth, attr, value } => {
            let Some(pi) = part_index(parts, part) else { return false };
            let xml = parts[pi].1.clone();
            let tags = scan(&xml);
            let Some(ti) = find_element(&xml, &tags, tag, *nth) else { return false };
            let mut out = Vec::with_capacity(xml.len() + value.len() + attr.len() + 4);
            match tags[ti].attrs.iter().find(|a| &xml[a.name.0..a.name.1] == attr.as_bytes()) {
                Some(a) => {
                    let q = xml[a.value.0 - 1];
                    out.extend_from_slice(&xml[..a.value.0]);
                    let v = if q == b'"' { escape_attr(value) } else { value.replace('\'', "&apos;") };
                    out.extend_from_slice(v.as_bytes());
                    out.extend_from_slice(&xml[a.value.1..]);
                }
                None => {
                    let at = tags[ti].name.1;
                    out.extend_from_slice(&xml[..at]);
                    out.extend_from_slice(format!(" {attr}=\"{}\"", escape_attr(value)).as_bytes());
                    out.extend_from_slice(&xml[at..]);
                }
            }
            parts[pi].1 = out;
            true
        }
        Mut::SetText { part, tag, nth, text } => {
            let Some(pi) = part_index(parts, part) else { return false };
            let xml = parts[pi].1.clone();
            let tags = scan(&xml);
            let Some(ti) = find_element(&xml, &tags, tag, *nth) else { return false };
            let (_, _, close) = element_extent(&tags, ti);
            let mut out = Vec::with_capacity(xml.len() + text.len());
            match close {
                Some(c) => {
                    out.extend_from_slice(&xml[..tags[ti].end]);
                    out.extend_from_slice(text.as_bytes());
                    out.extend_from_slice(&xml[tags[c].start..]);
                }
                None => {
                    // self-closing: <v/> -> <v>text</v>
                    let t = &tags[ti];
                    if t.kind != TagKind::SelfClose || t.end < 2 {
                        return false;
                    }
                    let name = xml[t.name.0..t.name.1].to_vec();
                    out.extend_from_slice(&xml[..t.end - 2]);
                    out.push(b'>');
                    out.extend_from_slice(text.as_bytes());
                    out.extend_from_slice(b"</");
                    out.extend_from_slice(&name);
                    out.push(b'>');
                    out.extend_from_slice(&xml[t.end..]);
                }
            }
            parts[pi].1 = out;
            true
        }
        Mut::ZipStored | Mut::ZipTruncate { .. } | Mut::ZipFlipBit { .. } => true,
    }
}

/// Apply all mutations and produce the bytes of the mutated package.
/// Returns the bytes and, per mutation, whether it applied.
pub fn build(seed: &Parts, muts: &[Mut]) -> (Vec<u8>, Vec<bool>) {
    let mut parts = seed.clone();
    let mut applied = vec![];
    for m in muts {
        applied.push(apply(&mut parts, m));
    }
    let stored = muts.iter().any(|m| matches!(m, Mut::ZipStored));
    let mut bytes = pack(&parts, stored);
    for m in muts {
        match m {
            Mut::ZipTruncate { keep_ppm } => {
                let k = ppm(bytes.len(), *keep_ppm);
                bytes.truncate(k);
            }
            Mut::ZipFlipBit { at_ppm, bit } if !bytes.is_empty() => {
                let n = bytes.len();
                let k = ppm(n, *at_ppm).min(n - 1);
                bytes[k] ^= 1 << (bit % 8);
            }
            _ => {}
        }
    }
    (bytes, applied)
}

// ------------------------------------------------------------------------------------------
// catalogue of a seed: what there is to mutate

#[derive(Clone, Debug, Default)]
pub struct PartInfo {
    pub name: String,
    pub is_xml: bool,
    /// (tag, number of occurrences, attribute names seen on it, has text content)
    pub tags: Vec<(String, usize, Vec<String>, bool)>,
}

pub fn catalogue(parts: &Parts) -> Vec<PartInfo> {
    let mut out = vec![];
    for (name, data) in parts {
        let is_xml = name.ends_with(".xml") || name.ends_with(".rels") || name.ends_with(".vml");
        let mut info = PartInfo { name: name.clone(), is_xml, tags: vec![] };
        if is_xml {
            let tags = scan(data);
            for (i, t) in tags.iter().enumerate() {
                if t.kind == TagKind::Close {
                    continue;
                }
                let tn = String::from_utf8_lossy(&data[t.name.0..t.name.1]).to_string();
                let has_text = t.kind == TagKind::Open
                    && tags.get(i + 1).map(|u| u.kind == TagKind::Close && u.start > t.end).unwrap_or(false);
                let entry = match info.tags.iter_mut().find(|e| e.0 == tn) {
                    Some(e) => e,
                    None => {
                        info.tags.push((tn.clone(), 0, vec![], false));
                        info.tags.last_mut().unwrap()
                    }
                };
                entry.1 += 1;
                entry.3 |= has_text;
                for a in &t.attrs {
                    let an = String::from_utf8_lossy(&data[a.name.0..a.name.1]).to_string();
                    if !entry.2.contains(&an) {
                        entry.2.push(an);
                    }
                }
            }
        }
        out.push(info);
    }
    out
}

/// Values that unchecked numeric / reference parsing code tends to mishandle.
pub const ATTR_VALUES: [&str; 64] = [
    "", "0", "1", "-1", "2", "255", "256", "65535", "65536", "16384", "16385", "1048576", "1048577", "2147483647",
    "2147483648", "-2147483648", "-2147483649", "4294967295", "4294967296", "9223372036854775807",
    "99999999999999999999", "1e400", "-1e400", "NaN", "inf", "1.5", "-0", "+1", " 1", "1 ", "0x10", "abc", "true",
    "false", "TRUE", "A1", "A0", "$A$1", "A1048577", "XFE1", "ZZZZ1", "ZQQQQQYZ1", "A1:", ":B2", "A1:B", "A:A", "1:1",
    "A1:A1048577", "A1:Z2000", "B2:A1", "A1 B2", "A1,B2", "Sheet1!A1", "1A", "a1", "é1", "A١", "rId999", "rId1",
    "n", "s", "str", "b", "e",
];

pub const TEXT_VALUES: [&str; 41] = [
    "", "0", "1", "-1", "1e400", "NaN", "abc", "4294967296", "99999999999", "-2147483649", "1.5", "TRUE", "#N/A",
    "#REF!", "#BOGUS!", "A1", "SUM(", "SUM(A1:B2)", "=1+1", "ZQQQQQYZ$1", "1/0", "Sheet9!A1", "A1:XFD1",
    "{1,2;3}", "\"", "'", "&", "<", "&#0;", "&bogus;", "&#xD800;", "]]>", "<![CDATA[x]]>", "\u{feff}", "\u{0}", "é😀",
    "_x000D_", "_x0041", "a_x00", "_xZZZZ_", "_xD800_",
];

// ------------------------------------------------------------------------------------------
// choosing mutations from raw selectors

fn sel(x: u32, len: usize) -> usize {
    if len == 0 {
        0
    } else {
        x as usize % len
    }
}

pub fn weighted_parts(cat: &[PartInfo]) -> Vec<usize> {
    let mut weighted = vec![];
    for (i, p) in cat.iter().enumerate() {
        for _ in 0..part_weight(&p.name) {
            weighted.push(i);
        }
    }
    weighted
}

/// Decode one `Raw` from fuzzer bytes (fixed 40-byte records; None when exhausted).
pub fn raw_from_bytes(data: &mut &[u8]) -> Option<Raw> {
    if data.len() < 40 {
        return None;
    }
    let (rec, rest) = data.split_at(40);
    *data = rest;
    let u = |i: usize| u32::from_le_bytes([rec[i], rec[i + 1], rec[i + 2], rec[i + 3]]);
    Some(Raw {
        kind: rec[0],
        nth_mode: rec[1],
        bit: rec[2] % 8,
        long: match rec[3] % 3 {
            0 => 40,
            1 => 300,
            _ => 5000,
        },
        part: u(4),
        other_part: u(8),
        tag: u(12),
        nth: u(16),
        tag2: u(20),
        nth2: u(24),
        attr: u(28),
        value: u(32),
        ppm: u(36) % 1_000_001,
        bytes: rec[36..40].to_vec(),
    })
}

pub fn part_weight(name: &str) -> usize {
    if name.starts_with("xl/worksheets/sheet") {
        8
    } else if name == "xl/styles.xml" {
        5
    } else if name == "xl/workbook.xml" {
        5
    } else if name == "xl/sharedStrings.xml" {
        4
    } else if name == "xl/_rels/workbook.xml.rels" {
        3
    } else if name.starts_with("xl/tables/") || name.starts_with("xl/comments") {
        3
    } else if name.contains("_rels/") || name == "[Content_Types].xml" || name == "xl/metadata.xml" {
        2
    } else {
        1
    }
}

/// Raw selectors (interpreted modulo what the seed offers): the form in which generators and the
/// fuzz target choose a mutation.
#[derive(Clone, Debug, Default)]
pub struct Raw {
    pub kind: u8,
    pub part: u32,
    pub other_part: u32,
    pub tag: u32,
    pub nth: u32,
    pub nth_mode: u8,
    pub tag2: u32,
    pub nth2: u32,
    pub attr: u32,
    pub value: u32,
    pub ppm: u32,
    pub bit: u8,
    pub bytes: Vec<u8>,
    pub long: u16,
}

pub const EXTRA_ATTRS: [&str; 14] = ["r", "s", "t", "ref", "count", "uniqueCount", "si", "min", "max", "sqref", "r:id", "sheetId", "numFmtId", "xfId"];

pub fn concretize(cat: &[PartInfo], weighted: &[usize], raw: &Raw) -> Mut {
    let pi = weighted[sel(raw.part, weighted.len())];
    let p = &cat[pi];
    let part = p.name.clone();
    let other = cat[sel(raw.other_part, cat.len())].name.clone();
    let kind = if p.is_xml && !p.tags.is_empty() { raw.kind % 40 } else { raw.kind % 12 };
    let pick_tag = |s: &u32, nsel: &u32, mode: u8| -> (String, usize, usize) {
        let ti = sel(*s, p.tags.len());
        let (name, count, _, _) = &p.tags[ti];
        let nth = match mode % 4 {
            0 | 1 => 0,
            2 => count - 1,
            _ => sel(*nsel, *count),
        };
        (name.clone(), nth, ti)
    };
    let value = |s: &u32| -> String {
        let k = sel(*s, ATTR_VALUES.len() + 2);
        if k < ATTR_VALUES.len() {
            ATTR_VALUES[k].to_string()
        } else if k == ATTR_VALUES.len() {
            "9".repeat(raw.long as usize)
        } else {
            "A".repeat(raw.long as usize)
        }
    };
    match kind {
        0 => Mut::DropPart { part },
        1 => Mut::EmptyPart { part },
        2 => Mut::RenamePart {
            part,
            to: match sel(raw.value, 4) {
                0 => other,
                1 => "xl/worksheets/sheet99.xml".to_string(),
                2 => String::new(),
                _ => "../x.xml".to_string(),
            },
        },
        3 => Mut::DuplicatePart { part, to: other },
        4 => Mut::SwapContent { part, with: other },
        5 => Mut::TruncatePart { part, keep_ppm: raw.ppm },
        6 | 7 => Mut::FlipBit { part, at_ppm: raw.ppm, bit: raw.bit },
        8 => Mut::InsertBytes {
            part,
            at_ppm: raw.ppm,
            bytes: match sel(raw.value, 6) {
                0 => vec![0xff],
                1 => vec![0xc3],
                2 => vec![0xed, 0xa0, 0x80],
                3 => vec![0],
                4 => b"<x>".to_vec(),
                _ => raw.bytes.clone(),
            },
        },
        9 => Mut::ZipTruncate { keep_ppm: raw.ppm },
        10 => Mut::ZipFlipBit { at_ppm: raw.ppm, bit: raw.bit },
        11 => Mut::ZipStored,
        12..=16 => {
            let (tag, nth, _) = pick_tag(&raw.tag, &raw.nth, raw.nth_mode);
            Mut::DropElement { part, tag, nth }
        }
        17 | 18 => {
            let (tag, nth, _) = pick_tag(&raw.tag, &raw.nth, raw.nth_mode);
            Mut::DuplicateElement { part, tag, nth }
        }
        19 | 20 => {
            let (tag, nth, _) = pick_tag(&raw.tag, &raw.nth, raw.nth_mode);
            let (into_tag, into_nth, _) = pick_tag(&raw.tag2, &raw.nth2, raw.nth_mode / 4);
            Mut::MoveElement { part, tag, nth, into_tag, into_nth }
        }
        21 | 22 => {
            let (tag, nth, _) = pick_tag(&raw.tag, &raw.nth, raw.nth_mode);
            Mut::UnwrapElement { part, tag, nth }
        }
        23 | 24 => {
            let (tag, nth, _) = pick_tag(&raw.tag, &raw.nth, raw.nth_mode);
            Mut::EmptyElement { part, tag, nth }
        }
        25 => {
            let (tag, nth, _) = pick_tag(&raw.tag, &raw.nth, raw.nth_mode);
            let (to, _, _) = pick_tag(&raw.tag2, &raw.nth2, 0);
            Mut::RenameElement { part, tag, nth, to }
        }
        26..=29 => {
            let (tag, nth, ti) = pick_tag(&raw.tag, &raw.nth, raw.nth_mode);
            let attrs = &p.tags[ti].2;
            if attrs.is_empty() {
                Mut::DropElement { part, tag, nth }
            } else {
                Mut::DropAttr { part, tag, nth, attr: attrs[sel(raw.attr, attrs.len())].clone() }
            }
        }
        30..=36 => {
            let (tag, nth, ti) = pick_tag(&raw.tag, &raw.nth, raw.nth_mode);
            let attrs = &p.tags[ti].2;
            let k = sel(raw.attr, attrs.len() * 6 + 1);
            let attr = if k < attrs.len() * 6 { attrs[k % attrs.len()].clone() } else { EXTRA_ATTRS[sel(raw.value, EXTRA_ATTRS.len())].to_string() };
            Mut::SetAttr { part, tag, nth, attr, value: value(&raw.value) }
        }
        _ => {
            // text content: prefer tags that carry text
            let texty: Vec<usize> = p.tags.iter().enumerate().filter(|(_, t)| t.3).map(|(i, _)| i).collect();
            let ti = if texty.is_empty() { sel(raw.tag, p.tags.len()) } else { texty[sel(raw.tag, texty.len())] };
            let (name, count, _, _) = &p.tags[ti];
            let nth = match raw.nth_mode % 3 {
                0 => 0,
                1 => count - 1,
                _ => sel(raw.nth, *count),
            };
            let k = sel(raw.value, TEXT_VALUES.len() + ATTR_VALUES.len());
            let text = if k < TEXT_VALUES.len() { TEXT_VALUES[k].to_string() } else { ATTR_VALUES[k - TEXT_VALUES.len()].to_string() };
            Mut::SetText { part, tag: name.clone(), nth, text }
        }
    }
}

