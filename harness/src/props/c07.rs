//! C07 — Evaluation is deterministic and independent of editing order, cadence and reload.
//!
//! A case is a *cell-input set* (distinct addresses on two sheets -> typed inputs: values, scalar
//! formulas, dynamic-array formulas whose sizes depend on cells and on other spills, `X#`
//! readers, blockers, CSE array formulas that do not read their own range), a permutation of the
//! entry order (sort keys), a cadence flag (evaluate after every edit / only at the end) and an
//! optional save-and-reload (`to_bytes` / `from_bytes`) after k edits.
//!
//! Oracle (metamorphic): the workbook built in canonical order with one evaluation at the end
//! and the workbook built in the permuted order with the given cadence and reload hold the same
//! typed values (bit-exact numbers; error kinds) and the same array structures; building the
//! same variant twice gives the same result (every `HashMap` of the engine gets a fresh
//! `RandomState`, so iteration orders differ between the two builds); a second `evaluate()`
//! changes nothing. Formatted text and styles are deliberately not compared: the number format a
//! formula receives is inferred from its precedents at entry time and so depends on entry order
//! by design.

use std::collections::{BTreeMap, BTreeSet};

use ironcalc_base::types::{ArrayKind, Cell};
use ironcalc_base::Model;
use proptest::prelude::*;
use serde::{Deserialize, Serialize};
use serde_json::Value;

use super::evalkit::{self as kit, Graph, Pos, RefResult};
use crate::engine::panics;
use crate::engine::snapshot::{cell_value, TV};
use crate::engine::{Ctx, Outcome, Tier};

#[derive(Clone, Debug, Serialize, Deserialize, PartialEq)]
pub struct In {
    pub s: u8,
    pub r: i32,
    pub c: i32,
    pub t: String,
    /// `Some((w, h))`: entered with `set_user_array_formula` over w x h cells
    #[serde(default, skip_serializing_if = "Option::is_none")]
    pub cse: Option<(i32, i32)>,
}

#[derive(Clone, Debug, Serialize, Deserialize, PartialEq)]
pub struct Case {
    pub cells: Vec<In>,
    /// sort keys: the variant enters `cells` in the order of (key, index)
    pub keys: Vec<u16>,
    /// evaluate after every edit (else only at the end)
    pub each: bool,
    /// save and reload after this many edits
    pub reload_at: Option<u8>,
}

#[derive(Clone, Copy, Debug, PartialEq)]
pub struct Avoid {
    pub stale: bool,
    pub spill_ref: bool,
    pub competing: bool,
    pub cse_self: bool,
    pub cse_placeholder: bool,
    pub starved: bool,
}

impl Avoid {
    pub fn none() -> Avoid {
        Avoid { stale: false, spill_ref: false, competing: false, cse_self: false, cse_placeholder: false, starved: false }
    }
}

struct Built {
    model: Model<'static>,
}

enum Stop {
    Rejected(String),
    Panic(panics::Panic),
}

fn enter(m: &mut Model<'static>, c: &In) -> Result<(), String> {
    match c.cse {
        Some((w, h)) => m.set_user_array_formula(c.s as u32, c.r, c.c, w, h, &c.t),
        None => m.set_user_input(c.s as u32, c.r, c.c, c.t.clone()),
    }
}

fn build(cells: &[In], order: &[usize], each: bool, reload_at: Option<usize>) -> Result<Built, Stop> {
    let r = panics::catch(|| {
        let mut m = kit::new_model(2);
        for (k, &i) in order.iter().enumerate() {
            if reload_at == Some(k) {
                let bytes = m.to_bytes();
                m = Model::from_bytes(&bytes, "en").map_err(|e| format!("reload: {e}"))?;
            }
            enter(&mut m, &cells[i]).map_err(|e| format!("input {}: {e}", cells[i].t))?;
            if each {
                m.evaluate();
            }
        }
        if reload_at.map(|k| k >= order.len()).unwrap_or(false) {
            let bytes = m.to_bytes();
            m = Model::from_bytes(&bytes, "en").map_err(|e| format!("reload: {e}"))?;
        }
        m.evaluate();
        Ok::<_, String>(m)
    });
    match r {
        Err(p) => Err(Stop::Panic(p)),
        Ok(Err(e)) => Err(Stop::Rejected(e)),
        Ok(Ok(model)) => Ok(Built { model }),
    }
}

type State = (BTreeMap<Pos, String>, BTreeMap<Pos, String>);

fn state(m: &Model) -> State {
    (kit::values(m), kit::structures(m))
}

fn first_diff(a: &State, b: &State) -> Option<(Pos, String)> {
    let keys: BTreeSet<&Pos> = a.0.keys().chain(b.0.keys()).chain(a.1.keys()).chain(b.1.keys()).collect();
    for k in keys {
        if a.0.get(k) != b.0.get(k) {
            return Some((*k, format!("value {} vs {}", a.0.get(k).map(|s| s.as_str()).unwrap_or("<empty>"), b.0.get(k).map(|s| s.as_str()).unwrap_or("<empty>"))));
        }
        if a.1.get(k) != b.1.get(k) {
            return Some((*k, format!("structure {} vs {}", a.1.get(k).map(|s| s.as_str()).unwrap_or("<single>"), b.1.get(k).map(|s| s.as_str()).unwrap_or("<single>"))));
        }
    }
    None
}

fn describe(a: &State, b: &State, la: &str, lb: &str) -> String {
    let mut d = kit::map_diff(&a.0, &b.0, la, lb, 6);
    d.extend(kit::map_diff(&a.1, &b.1, la, lb, 4));
    d.join("\n")
}

/// Role of the input that owns / sits at a position, for signatures.
fn role(case: &Case, m: &Model, p: Pos) -> String {
    let input_at = |q: Pos| case.cells.iter().find(|c| (c.s as u32, c.r, c.c) == q);
    if let Some(c) = input_at(p) {
        let kind = match (c.cse.is_some(), m.workbook.worksheets[p.0 as usize].cell(p.1, p.2)) {
            (true, _) => "cse-anchor",
            (_, Some(Cell::ArrayFormula { kind: ArrayKind::Dynamic, .. })) => "dynamic-anchor",
            _ if c.t.starts_with('=') => "scalar-formula",
            _ => "value",
        };
        return format!("{kind}:{}", kit::formula_head(&c.t));
    }
    match m.workbook.worksheets[p.0 as usize].cell(p.1, p.2) {
        Some(Cell::SpillCell { a, .. }) => {
            let head = input_at((p.0, a.0, a.1)).map(|c| kit::formula_head(&c.t)).unwrap_or_default();
            format!("spill-cell-of:{head}")
        }
        _ => "other".into(),
    }
}

/// Listed root causes (see known_findings.json), detected on a fully evaluated workbook.
fn triggers(case: &Case, m: &Model) -> Vec<&'static str> {
    let mut out = vec![];
    let t = kit::spill_triggers(m);
    if t.demanded_cell_reads_spill {
        out.push("demanded-cell-reads-spill");
    }
    if t.spill_ref_before_target {
        out.push("spill-ref-before-target");
    }
    if t.reads_own_spill {
        out.push("dynamic-array-reads-own-spill");
    }
    if competing_anchors(case, m) {
        out.push("competing-dynamic-anchors");
    }
    {
        let anchors = kit::all_dynamic_anchors(m);
        let g = Graph::build_ext(m, true);
        if g.cells.iter().any(|a| kit::needs_reorder_while_starved(m, &g, &anchors, *a)) {
            out.push("anchor-cycle-exhausts-restarts");
        }
    }
    if cse_reads_own_range(case, m) {
        out.push("cse-array-reads-own-range");
    }
    if cse_cell_read_by_other(case, m) {
        out.push("cse-range-cell-read-by-other-formula");
    }
    out
}

/// A dynamic anchor shows #SPILL! although nothing the user typed (a value, a formula, a CSE
/// array range) lies in the block it would fill, and the block stays inside the grid: it can
/// only have been blocked by the spill of another dynamic array, and which of the two spills is
/// decided by evaluation / entry order.
fn competing_anchors(case: &Case, m: &Model) -> bool {
    let typed: BTreeSet<Pos> = case
        .cells
        .iter()
        .flat_map(|c| {
            let (w, h) = c.cse.unwrap_or((1, 1));
            let (s, r0, c0) = (c.s as u32, c.r, c.c);
            (0..h).flat_map(move |dr| (0..w).map(move |dc| (s, r0 + dr, c0 + dc)))
        })
        .collect();
    for (a, w, h) in kit::all_dynamic_anchors(m) {
        if !matches!(cell_value(m, a.0, a.1, a.2), TV::Err(k) if k == "#SPILL!") || (w, h) != (1, 1) {
            continue;
        }
        match kit::reference_result(m, a) {
            RefResult::Array(rw, rh, _) => {
                let mut static_blocker = false;
                for r in a.1..a.1 + rh {
                    for c in a.2..a.2 + rw {
                        if (r, c) != (a.1, a.2) && typed.contains(&(a.0, r, c)) {
                            static_blocker = true;
                        }
                    }
                }
                if !static_blocker {
                    return true;
                }
            }
            RefResult::SpillInIsolation => {}
            // size unknown: cannot show that a typed cell blocks it
            _ => return true,
        }
    }
    false
}

/// A CSE array formula reads, directly or through other formulas, a cell of its own range.
fn cse_reads_own_range(case: &Case, m: &Model) -> bool {
    let g = Graph::build_ext(m, true);
    for c in &case.cells {
        let Some((w, h)) = c.cse else { continue };
        let at = (c.s as u32, c.r, c.c);
        let Some(&root) = g.index.get(&at) else { continue };
        let inside = |p: &Pos| p.0 == at.0 && p.1 >= c.r && p.1 < c.r + h && p.2 >= c.c && p.2 < c.c + w;
        let mut seen = vec![false; g.cells.len()];
        let mut stack = vec![root];
        seen[root] = true;
        while let Some(v) = stack.pop() {
            if g.reads[v].iter().any(|p| inside(p)) {
                return true;
            }
            for &x in &g.succ[v] {
                if !seen[x] {
                    seen[x] = true;
                    stack.push(x);
                }
            }
        }
    }
    false
}

/// A formula other than the array formula itself reads a non-anchor cell of a CSE array range:
/// until the anchor has been evaluated once those cells are plain empty-string placeholders.
fn cse_cell_read_by_other(case: &Case, m: &Model) -> bool {
    let g = Graph::build_ext(m, true);
    for c in &case.cells {
        let Some((w, h)) = c.cse else { continue };
        let at = (c.s as u32, c.r, c.c);
        let inside = |p: &Pos| *p != at && p.0 == at.0 && p.1 >= c.r && p.1 < c.r + h && p.2 >= c.c && p.2 < c.c + w;
        for v in 0..g.cells.len() {
            if g.cells[v] != at && g.reads[v].iter().any(|p| inside(p)) {
                return true;
            }
        }
    }
    false
}

pub fn order_of(case: &Case) -> Vec<usize> {
    let mut idx: Vec<usize> = (0..case.cells.len()).collect();
    idx.sort_by_key(|&i| (case.keys.get(i).copied().unwrap_or(0), i));
    idx
}

pub fn check(case: &Case, avoid: Avoid) -> Outcome {
    let mut o = Outcome::pass();
    let n = case.cells.len();
    if n == 0 {
        return o;
    }
    let ident: Vec<usize> = (0..n).collect();
    let perm = order_of(case);
    let reload = case.reload_at.map(|k| (k as usize).min(n));
    let mk = |order: &[usize], each: bool, reload: Option<usize>, what: &str, o: &mut Outcome| -> Option<Built> {
        match build(&case.cells, order, each, reload) {
            Ok(b) => Some(b),
            Err(Stop::Rejected(e)) => {
                o.labels.push(format!("harness:input-rejected:{what}:{}", e.split(':').next().unwrap_or("")));
                None
            }
            Err(Stop::Panic(p)) => {
                *o = std::mem::take(o).fail(format!("C07:{}", p.class()), format!("building the {what} variant panicked: {}", p.describe()));
                None
            }
        }
    };
    let Some(mut base) = mk(&ident, false, None, "canonical", &mut o) else { return o };
    let Some(mut var) = mk(&perm, case.each, reload, "permuted", &mut o) else { return o };
    let s_base = state(&base.model);
    let s_var = state(&var.model);

    // listed root causes: detect on both final states (and on the converged ones below)
    let mut trig: BTreeSet<&'static str> = triggers(case, &base.model).into_iter().collect();
    trig.extend(triggers(case, &var.model));

    // second evaluation of both
    let second = |b: &mut Built| -> Result<State, panics::Panic> {
        panics::catch(|| b.model.evaluate())?;
        Ok(state(&b.model))
    };
    let s_base2 = match second(&mut base) {
        Ok(s) => s,
        Err(p) => return o.fail(format!("C07:{}", p.class()), format!("second evaluate() panicked: {}", p.describe())),
    };
    let s_var2 = match second(&mut var) {
        Ok(s) => s,
        Err(p) => return o.fail(format!("C07:{}", p.class()), format!("second evaluate() panicked: {}", p.describe())),
    };
    trig.extend(triggers(case, &base.model));
    trig.extend(triggers(case, &var.model));

    let excluded: Vec<&str> = trig
        .iter()
        .copied()
        .filter(|t| match *t {
            "demanded-cell-reads-spill" => avoid.stale,
            "spill-ref-before-target" => avoid.spill_ref,
            "competing-dynamic-anchors" => avoid.competing,
            "cse-array-reads-own-range" => avoid.cse_self,
            "anchor-cycle-exhausts-restarts" => avoid.starved,
            "cse-range-cell-read-by-other-formula" => avoid.cse_placeholder,
            // a dynamic array that reads its own spill area is a circular input: no stable value is defined
            "dynamic-array-reads-own-spill" => true,
            _ => false,
        })
        .collect();
    if !excluded.is_empty() {
        o.excluded += 1;
        for t in excluded {
            o = o.label(format!("excluded:{t}"));
        }
        return o;
    }
    let tag = if trig.is_empty() { String::new() } else { format!("trigger={}", trig.iter().copied().collect::<Vec<_>>().join("+")) };

    // ---- labels
    let anchors = kit::all_dynamic_anchors(&base.model);
    let g = Graph::build_ext(&base.model, true);
    let mut anchor_reads_spill = false;
    for (a, _, _) in &anchors {
        if let Some(&v) = g.index.get(a) {
            for p in &g.reads[v] {
                if anchors.iter().any(|(q, w, h)| q != a && p.0 == q.0 && p.1 >= q.1 && p.1 < q.1 + h && p.2 >= q.2 && p.2 < q.2 + w) {
                    anchor_reads_spill = true;
                }
            }
        }
    }
    o = o.label(format!("dynamic-anchors:{}", anchors.len().min(5)));
    if anchors.iter().any(|(_, w, h)| w * h > 1) {
        o = o.label("has-spill");
    }
    if anchor_reads_spill {
        o = o.label("anchor-reads-other-spill");
    }
    if anchors.iter().any(|(a, _, _)| matches!(cell_value(&base.model, a.0, a.1, a.2), TV::Err(k) if k == "#SPILL!")) {
        o = o.label("blocked-anchor");
    }
    if case.cells.iter().any(|c| c.cse.is_some()) {
        o = o.label("has-cse-array");
    }
    if case.cells.iter().any(|c| c.t.contains('#') && c.t.starts_with('=') && !c.t.contains("#N/A")) {
        o = o.label("uses-spill-ref");
    }
    o = o.label(if case.each { "cadence:each-edit" } else { "cadence:end-only" });
    o = o.label(if reload.is_some() { "reload:yes" } else { "reload:no" });
    o = o.label(if perm == ident { "order:identity" } else { "order:permuted" });

    // ---- evaluate twice
    for (s1, s2, which) in [(&s_base, &s_base2, "canonical"), (&s_var, &s_var2, "permuted")] {
        if let Some((p, _)) = first_diff(s1, s2) {
            let m = if which == "canonical" { &base.model } else { &var.model };
            return o.fail(
                format!("C07:evaluate-twice:{}", if tag.is_empty() { role(case, m, p) } else { tag.clone() }),
                format!("a second evaluate() of the {which} build changes the workbook:\n{}", describe(s1, s2, "first", "second")),
            );
        }
    }

    // ---- determinism: the very same build again
    let Some(twin) = mk(&perm, case.each, reload, "permuted", &mut o) else { return o };
    let s_twin = state(&twin.model);
    if let Some((p, _)) = first_diff(&s_var, &s_twin) {
        return o.fail(
            format!("C07:nondeterministic:{}", if tag.is_empty() { role(case, &var.model, p) } else { tag.clone() }),
            format!("building the same inputs in the same order twice gives different workbooks:\n{}", describe(&s_var, &s_twin, "build1", "build2")),
        );
    }

    // ---- order / cadence / reload
    if let Some((p, _)) = first_diff(&s_base, &s_var) {
        // attribute to one dimension where possible
        let mut dim = "combined";
        for (d, order, each, rl) in [("order", &perm, false, None), ("cadence", &ident, true, None), ("reload", &ident, false, reload.or(Some(n / 2)))] {
            if let Ok(b) = build(&case.cells, order, each, rl) {
                if first_diff(&s_base, &state(&b.model)).is_some() {
                    dim = d;
                    break;
                }
            }
        }
        return o.fail(
            format!("C07:{dim}:{}", if tag.is_empty() { role(case, &base.model, p) } else { tag.clone() }),
            format!(
                "canonical order + one evaluation at the end vs entry order {:?}, evaluate-after-every-edit={}, reload-after={:?}:\n{}",
                perm,
                case.each,
                reload,
                describe(&s_base, &s_var, "canonical", "variant")
            ),
        );
    }

    if anchors.len() >= 2 && anchor_reads_spill && perm != ident {
        o = o.nontrivial(serde_json::to_string(case).unwrap_or_default());
    }
    o
}

// ------------------------------------------------------------------------------------------
// generator
// ------------------------------------------------------------------------------------------

const N: i32 = 8;

fn rng(r: i32, c: i32, h: i32, w: i32) -> String {
    format!("{}:{}", kit::a1(r, c), kit::a1((r + h).min(N + 2), (c + w).min(N + 2)))
}

fn input_strategy() -> BoxedStrategy<(String, Option<(i32, i32)>)> {
    let cellr = || (1..=N, 1..=N).prop_map(|(r, c)| kit::a1(r, c));
    let other = || (1..=4i32, 1..=4i32).prop_map(|(r, c)| format!("Sheet2!{}", kit::a1(r, c)));
    let anchor = prop_oneof![
        3 => (1..4i32, 1..4i32).prop_map(|(a, b)| format!("=SEQUENCE({a},{b})")),
        3 => (cellr(), cellr()).prop_map(|(a, b)| format!("=SEQUENCE({a},{b})")),
        2 => (cellr(), 1..3i32).prop_map(|(a, b)| format!("=SEQUENCE({a},{b})")),
        3 => (1..=N, 1..=N, 0..3i32, 0..3i32).prop_map(|(r, c, h, w)| format!("={}*2", rng(r, c, h, w))),
        2 => (1..=N, 1..=N, 0..3i32, 0..3i32).prop_filter("not 1x1", |(_, _, h, w)| h + w > 0).prop_map(|(r, c, h, w)| format!("={}", rng(r, c, h, w))),
        1 => Just("={1,2;3,4}".to_string()),
        2 => (1..=N, 1..=N, 0..3i32, 0..3i32).prop_map(|(r, c, h, w)| format!("=TRANSPOSE({})", rng(r, c, h, w))),
        3 => cellr().prop_map(|a| format!("={a}#")),
        2 => (cellr(), 1..5i32).prop_map(|(a, k)| format!("={a}#+{k}")),
        1 => (1..=3i32, 1..=3i32, 1..3i32, 0..2i32).prop_map(|(r, c, h, w)| format!("=Sheet2!{}*3", rng(r, c, h, w))),
        // single-cell references across sheets (sizes and elements taken from the other sheet)
        2 => (other(), 1..3i32).prop_map(|(a, b)| format!("=SEQUENCE({a},{b})")),
        1 => other().prop_map(|a| format!("={a}*{{1,2}}")),
        1 => (1..=4i32, 1..=4i32).prop_map(|(r, c)| format!("=SEQUENCE(Sheet1!{})", kit::a1(r, c))),
    ];
    let scalar = prop_oneof![
        3 => (1..=N, 1..=N, 0..3i32, 0..3i32).prop_map(|(r, c, h, w)| format!("=SUM({})", rng(r, c, h, w))),
        2 => (1..=N, 1..=N, 0..3i32, 0..3i32).prop_map(|(r, c, h, w)| format!("=COUNTA({})", rng(r, c, h, w))),
        3 => (cellr(), 0..9i32).prop_map(|(a, k)| format!("={a}+{k}")),
        1 => (cellr(), cellr()).prop_map(|(a, b)| format!("=IF(ISNUMBER({a}),{b},\"t\")")),
        2 => cellr().prop_map(|a| format!("=SUM({a}#)")),
        1 => other().prop_map(|a| format!("={a}+1")),
        1 => cellr().prop_map(|a| format!("=ROWS({a}#)*10+COLUMNS({a}#)")),
    ];
    let value = prop_oneof![
        6 => (1..5i32).prop_map(|n| n.to_string()),
        2 => (0..50i32).prop_map(|n| n.to_string()),
        1 => Just("x".to_string()),
        1 => Just("TRUE".to_string()),
        1 => Just("2.5".to_string()),
    ];
    let cse = (
        prop_oneof![
            (1..=N, 1..=N, 0..2i32, 0..2i32).prop_map(|(r, c, h, w)| format!("={}+1", rng(r, c, h, w))),
            (1..=N, 1..=N, 0..2i32, 0..2i32).prop_map(|(r, c, h, w)| format!("=SUM({})", rng(r, c, h, w))),
            cellr().prop_map(|a| format!("={a}*{{1,2}}")),
        ],
        1..3i32,
        1..3i32,
    );
    prop_oneof![
        8 => anchor.prop_map(|t| (t, None)),
        8 => scalar.prop_map(|t| (t, None)),
        9 => value.prop_map(|t| (t, None)),
        1 => cse.prop_map(|(t, w, h)| (t, Some((w, h)))),
    ]
    .boxed()
}

pub fn case_strategy(max_cells: usize) -> BoxedStrategy<Case> {
    let cell = (prop_oneof![4 => Just(0u8), 1 => Just(1u8)], 1..=N, 1..=N, input_strategy())
        .prop_map(|(s, r, c, (t, cse))| In { s, r: if s == 1 { (r - 1) % 4 + 1 } else { r }, c: if s == 1 { (c - 1) % 4 + 1 } else { c }, t, cse });
    (
        prop::collection::vec(cell, 3..=max_cells),
        prop::collection::vec(any::<u16>(), max_cells),
        any::<bool>(),
        prop_oneof![2 => Just(None), 1 => (0u8..=max_cells as u8).prop_map(Some)],
    )
        .prop_map(|(cells, keys, each, reload_at)| {
            // distinct addresses; nothing may be typed inside the range of a CSE array
            let mut taken: BTreeSet<(u8, i32, i32)> = BTreeSet::new();
            let mut out: Vec<In> = vec![];
            // CSE ranges claim their cells first
            for c in cells.iter().filter(|c| c.cse.is_some()) {
                let (w, h) = c.cse.unwrap();
                let block: Vec<(u8, i32, i32)> = (0..h).flat_map(|dr| (0..w).map(move |dc| (c.s, c.r + dr, c.c + dc))).collect();
                if block.iter().any(|p| taken.contains(p)) {
                    continue;
                }
                taken.extend(block);
                out.push(c.clone());
            }
            for c in cells.iter().filter(|c| c.cse.is_none()) {
                if taken.insert((c.s, c.r, c.c)) {
                    out.push(c.clone());
                }
            }
            // canonical order: as generated (sorted by address to be independent of the two passes)
            out.sort_by_key(|c| (c.s, c.r, c.c));
            let keys = keys[..out.len()].to_vec();
            Case { cells: out, keys, each, reload_at }
        })
        .boxed()
}

pub fn avoid_of(ctx: &Ctx) -> Avoid {
    Avoid {
        stale: ctx.avoid("c07-demanded-cell-reads-spill"),
        spill_ref: ctx.avoid("c07-spill-ref-before-target"),
        competing: ctx.avoid("c07-competing-dynamic-anchors"),
        cse_self: ctx.avoid("c07-cse-array-reads-own-range"),
        cse_placeholder: ctx.avoid("c07-cse-range-cell-read-by-other-formula"),
        starved: ctx.avoid("c07-anchor-cycle-exhausts-restarts"),
    }
}

pub fn run(ctx: &Ctx) {
    ctx.set_rule(
        "Cell-input sets of 3-14 (quick) / 3-20 (thorough) distinct addresses in an 8x8 window of Sheet1 plus a 4x4 \
         window of Sheet2: small numbers (sizes), text, booleans, scalar formulas (SUM/COUNTA over ranges, \
         references, IF, SUM(X#), ROWS/COLUMNS(X#)), dynamic arrays (SEQUENCE with constant and referenced sizes, \
         range copies, range*2, TRANSPOSE, array literal, X#, X#+k, cross-sheet ranges) and CSE array formulas; a \
         generated permutation of the entry order, evaluate-after-every-edit flag and an optional reload position. \
         Each case builds the canonical and the permuted variant (and the permuted one twice), evaluates each a \
         second time and compares typed values and array structures. Non-trivial: >=2 dynamic anchors of which one \
         reads a cell of another's spill area and the permutation is not the identity; distinct by the full case.",
    );
    ctx.assume("locale and language en, plain Model API; non-volatile functions only");
    ctx.assume("formatted text and styles are not compared (format inference depends on entry order by design)");
    ctx.assume("no input is typed inside the range of a CSE array (such an input is rejected or not depending on order: the input sets would differ)");
    ctx.assume("a dynamic array that reads its own spill area is a circular input without a defined value: such cases are skipped (counted as excluded)");
    ctx.assume("fresh-process determinism is approximated in-process: every engine HashMap gets its own RandomState, so two builds of the same case iterate their maps in different orders");
    let (cases, cells) = match ctx.tier {
        Tier::Quick => (150000, 14),
        Tier::Thorough => (3000000, 20),
    };
    let avoid = avoid_of(ctx);
    ctx.campaign(
        "input-sets",
        cases,
        || case_strategy(cells),
        move |c: &Case| check(c, avoid),
        |c: &Case| serde_json::to_value(c).unwrap_or(Value::Null),
    );
}

pub fn replay(_ctx: &Ctx, _campaign: &str, case: &Value) -> Result<Outcome, String> {
    let c: Case = serde_json::from_value(case.clone()).map_err(|e| e.to_string())?;
    Ok(check(&c, Avoid::none()))
}
