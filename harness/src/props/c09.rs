//! C09 — Printing a formula and parsing it back preserves its meaning.
//!
//! Case = a formula *source* tree (`formula_gen::FTree`, explicit parentheses). It is printed in
//! en/en and parsed by the engine's `Parser`: `T`. Texts the parser rejects are counted and
//! dropped. Then, for every printer of the engine
//!
//! * `rc`      — `to_rc_format` (stored form), re-parsed in R1C1 mode, en/en (what `parse_formulas`
//!               does on load),
//! * `english` — `to_english_string`, re-parsed A1, en/en,
//! * `excel`   — `to_excel_string` (xlsx export), re-parsed A1 en/en and post-processed with
//!               `add_implicit_intersection` like the importer; compared with `T` post-processed
//!               the same way, modulo the `automatic` flag and variable ids,
//! * `display` — `to_localized_string` in each of the language x locale pairs, re-parsed with the
//!               same pair,
//!
//! the re-parsed tree must equal `T` (`Node: PartialEq`). End to end through a `Model`: the
//! values of the cell (and of its spill window) must be the same after `get_cell_formula` /
//! `get_localized_cell_content` -> re-enter and after `to_bytes` / `from_bytes`.
//!
//! Signature of a failure = (printer family, parent kind, child kind, side) of the *smallest*
//! sub-tree of `T` that does not survive on its own, with all its other children replaced by a
//! neutral leaf; or the token class when a leaf does not survive.

use std::collections::{BTreeSet, HashMap};

use ironcalc_base::cell::CellValue;
use ironcalc_base::expressions::lexer::LexerMode;
use ironcalc_base::expressions::parser::static_analysis::add_implicit_intersection;
use ironcalc_base::expressions::parser::stringify::{
    to_english_string, to_excel_string, to_localized_string, to_rc_format,
};
use ironcalc_base::expressions::parser::{DefinedNameS, Node, Parser};
use ironcalc_base::expressions::token::{OpSum, OpUnary};
use ironcalc_base::expressions::types::CellReferenceRC;
use ironcalc_base::language::get_language;
use ironcalc_base::locale::get_locale;
use ironcalc_base::Model;
use proptest::prelude::*;
use serde::{Deserialize, Serialize};
use serde_json::Value;

use super::formula_gen::{self as fg, BinOp, CellRef, ErrLit, FTree, Profile, SheetRef, Style, UnOp};
use crate::engine::config;
use crate::engine::nodes::ref_leaves;
use crate::engine::{panics, Ctx, Outcome, Tier};

// ------------------------------------------------------------------------------------------------
// environment shared by the parser-level and the model-level checks

pub const SHEETS: [&str; 4] = ["Sheet1", "Sheet2", "My Sheet", "It's"];
pub const HOST_ROW: i32 = 7;
pub const HOST_COL: i32 = 5;

fn defined_names() -> Vec<DefinedNameS> {
    vec![("MyName".to_string(), None, "Sheet1!$A$1".to_string())]
}

fn host() -> CellReferenceRC {
    CellReferenceRC { sheet: SHEETS[0].to_string(), row: HOST_ROW, column: HOST_COL }
}

#[derive(Clone, Debug, Serialize, Deserialize)]
pub struct Case {
    pub tree: FTree,
    /// (language, locale) pairs in which the model-level round trips are run
    #[serde(default)]
    pub e2e: Vec<(String, String)>,
}

// ------------------------------------------------------------------------------------------------
// Node helpers

fn kind(n: &Node) -> String {
    match n {
        Node::BooleanKind(_) => "Boolean".into(),
        Node::NumberKind(_) => "Number".into(),
        Node::StringKind(_) => "String".into(),
        Node::ReferenceKind { .. } => "Reference".into(),
        Node::RangeKind { .. } => "Range".into(),
        Node::WrongReferenceKind { .. } => "WrongReference".into(),
        Node::WrongRangeKind { .. } => "WrongRange".into(),
        Node::OpRangeKind { .. } => "OpRange".into(),
        Node::OpConcatenateKind { .. } => "OpConcatenate".into(),
        Node::OpSumKind { kind: OpSum::Add, .. } => "OpSum(+)".into(),
        Node::OpSumKind { kind: OpSum::Minus, .. } => "OpSum(-)".into(),
        Node::OpProductKind { .. } => "OpProduct".into(),
        Node::OpPowerKind { .. } => "OpPower".into(),
        Node::FunctionKind { .. } => "Function".into(),
        Node::LambdaDefKind { .. } => "LambdaDef".into(),
        Node::LambdaCallKind { .. } => "LambdaCall".into(),
        Node::NamedFunctionKind { .. } => "NamedFunction".into(),
        Node::ArrayKind(_) => "Array".into(),
        Node::DefinedNameKind(_) => "DefinedName".into(),
        Node::TableNameKind(_) => "TableName".into(),
        Node::NamedVariableKind { .. } => "NamedVariable".into(),
        Node::ImplicitIntersection { .. } => "ImplicitIntersection".into(),
        Node::SpillRangeOperator { .. } => "SpillRange".into(),
        Node::CompareKind { .. } => "Compare".into(),
        Node::UnaryKind { kind: OpUnary::Minus, .. } => "Unary(-)".into(),
        Node::UnaryKind { kind: OpUnary::Percentage, .. } => "Unary(%)".into(),
        Node::ErrorKind(_) => "Error".into(),
        Node::ParseErrorKind { .. } => "ParseError".into(),
        Node::EmptyArgKind => "EmptyArg".into(),
    }
}

/// All kind names a node can have (used to build the avoidance set from known_findings.json).
const KINDS: [&str; 29] = [
    "Boolean", "Number", "String", "Reference", "Range", "WrongReference", "WrongRange", "OpRange",
    "OpConcatenate", "OpSum(+)", "OpSum(-)", "OpProduct", "OpPower", "Function", "LambdaDef",
    "LambdaCall", "NamedFunction", "Array", "DefinedName", "TableName", "NamedVariable",
    "ImplicitIntersection", "SpillRange", "Compare", "Unary(-)", "Unary(%)", "Error", "ParseError",
    "EmptyArg",
];
const SIDES: [&str; 6] = ["left", "right", "operand", "arg", "body", "callee"];

/// Does the number survive the 15-significant-digit text form the printers use?
fn fits_15_digits(x: f64) -> bool {
    format!("{:.14e}", x).parse::<f64>().map(|y| y == x).unwrap_or(false)
}

fn number_class(x: f64) -> &'static str {
    if !fits_15_digits(x) {
        "Number(more-than-15-significant-digits)"
    } else if x.fract() != 0.0 {
        "Number(decimal)"
    } else {
        "Number"
    }
}

fn error_class(e: &ironcalc_base::expressions::token::Error) -> &'static str {
    // #N/IMPL! has its own defect (printed without the '!'); every other error literal shares
    // one code path
    if matches!(e, ironcalc_base::expressions::token::Error::NIMPL) { "Error(NIMPL)" } else { "Error" }
}

/// Token class of a leaf that fails on its own.
fn token_class(n: &Node) -> String {
    match n {
        Node::ErrorKind(e) => error_class(e).to_string(),
        Node::NumberKind(x) => number_class(*x).to_string(),
        Node::StringKind(s) => if s.contains('"') { "String(with-quote)".into() } else { "String".into() },
        Node::ReferenceKind { sheet_name, row, column, absolute_row, absolute_column, .. } => {
            let r = if *absolute_row { *row } else { row + HOST_ROW };
            let c = if *absolute_column { *column } else { column + HOST_COL };
            if r < 1 || c < 1 || r > 1_048_576 || c > 16_384 { "Reference(off-grid)".into() } else { format!("Reference({})", sheet_class(sheet_name)) }
        }
        Node::RangeKind { sheet_name, .. } => {
            let leaves = ref_leaves(n, HOST_ROW, HOST_COL);
            let off = leaves.iter().any(|l| l.row1 < 1 || l.col1 < 1 || l.row2 > 1_048_576 || l.col2 > 16_384);
            let whole = leaves.iter().any(|l| l.row1 == 1 && l.col1 == 1 && l.row2 == 1_048_576 && l.col2 == 16_384);
            if off {
                "Range(off-grid)".into()
            } else if whole {
                "Range(whole-sheet)".into()
            } else {
                format!("Range({})", sheet_class(sheet_name))
            }
        }
        Node::WrongReferenceKind { sheet_name, .. } | Node::WrongRangeKind { sheet_name, .. } => {
            format!("{}({})", kind(n), sheet_class(sheet_name))
        }
        Node::NamedVariableKind { name, .. } => format!("NamedVariable({})", name.to_lowercase()),
        other => kind(other),
    }
}

fn sheet_class(s: &Option<String>) -> &'static str {
    match s {
        None => "no-sheet",
        Some(n) if n.chars().all(|c| c.is_alphanumeric() || c == '_') => "plain-sheet",
        Some(_) => "quoted-sheet",
    }
}

/// Children with the name of the slot they sit in.
fn children(n: &Node) -> Vec<(&'static str, &Node)> {
    match n {
        Node::OpRangeKind { left, right }
        | Node::OpConcatenateKind { left, right }
        | Node::OpSumKind { left, right, .. }
        | Node::OpProductKind { left, right, .. }
        | Node::OpPowerKind { left, right }
        | Node::CompareKind { left, right, .. } => vec![("left", left), ("right", right)],
        Node::FunctionKind { args, .. } | Node::NamedFunctionKind { args, .. } => args.iter().map(|a| ("arg", a)).collect(),
        Node::LambdaDefKind { body, .. } => vec![("body", body)],
        Node::LambdaCallKind { lambda, args } => {
            let mut v: Vec<(&'static str, &Node)> = vec![("callee", lambda)];
            v.extend(args.iter().map(|a| ("arg", a)));
            v
        }
        Node::ImplicitIntersection { child, .. } | Node::SpillRangeOperator { child } => vec![("operand", child)],
        Node::UnaryKind { right, .. } => vec![("operand", right)],
        _ => vec![],
    }
}

/// The same node with its children replaced (in the order `children` lists them).
fn with_children(n: &Node, mut new: Vec<Node>) -> Node {
    let mut next = || Box::new(new.remove(0));
    match n {
        Node::OpRangeKind { .. } => { let left = next(); Node::OpRangeKind { left, right: next() } }
        Node::OpConcatenateKind { .. } => { let left = next(); Node::OpConcatenateKind { left, right: next() } }
        Node::OpSumKind { kind, .. } => { let left = next(); Node::OpSumKind { kind: kind.clone(), left, right: next() } }
        Node::OpProductKind { kind, .. } => { let left = next(); Node::OpProductKind { kind: kind.clone(), left, right: next() } }
        Node::OpPowerKind { .. } => { let left = next(); Node::OpPowerKind { left, right: next() } }
        Node::CompareKind { kind, .. } => { let left = next(); Node::CompareKind { kind: kind.clone(), left, right: next() } }
        Node::FunctionKind { kind, .. } => Node::FunctionKind { kind: kind.clone(), args: new },
        Node::NamedFunctionKind { id, name, .. } => Node::NamedFunctionKind { id: *id, name: name.clone(), args: new },
        Node::LambdaDefKind { parameters, .. } => Node::LambdaDefKind { parameters: parameters.clone(), body: next() },
        Node::LambdaCallKind { .. } => { let lambda = next(); Node::LambdaCallKind { lambda, args: new } }
        Node::ImplicitIntersection { automatic, .. } => Node::ImplicitIntersection { automatic: *automatic, child: next() },
        Node::SpillRangeOperator { .. } => Node::SpillRangeOperator { child: next() },
        Node::UnaryKind { kind, .. } => Node::UnaryKind { kind: kind.clone(), right: next() },
        other => other.clone(),
    }
}

/// Clears what is not part of the formula's structure: variable ids (assigned at evaluation) and
/// the `automatic` flag of implicit intersections (not representable in any text form).
fn normalize(n: &Node) -> Node {
    let kids: Vec<Node> = children(n).into_iter().map(|(_, c)| normalize(c)).collect();
    match with_children(n, kids) {
        Node::NamedVariableKind { name, .. } => Node::NamedVariableKind { name, id: None },
        Node::NamedFunctionKind { name, args, .. } => Node::NamedFunctionKind { id: None, name, args },
        Node::ImplicitIntersection { child, .. } => Node::ImplicitIntersection { automatic: false, child },
        other => other,
    }
}

fn walk_pairs(n: &Node, f: &mut dyn FnMut(&Node, &'static str, &Node)) {
    for (slot, c) in children(n) {
        f(n, slot, c);
        walk_pairs(c, f);
    }
}

fn has_parse_error(n: &Node) -> bool {
    let mut b = false;
    crate::engine::nodes::walk(n, &mut |x| {
        if matches!(x, Node::ParseErrorKind { .. }) {
            b = true
        }
    });
    b
}

// ------------------------------------------------------------------------------------------------
// printers

#[derive(Clone, Debug, PartialEq)]
enum Printer {
    Rc,
    English,
    Excel,
    Display(String, String), // language, locale
}

impl Printer {
    fn family(&self) -> &'static str {
        match self {
            Printer::Rc => "rc",
            Printer::English => "english",
            Printer::Excel => "excel",
            Printer::Display(..) => "display",
        }
    }
}

struct Env {
    parser: Parser<'static>,
    ctx: CellReferenceRC,
}

impl Env {
    fn new() -> Env {
        let parser = Parser::new(
            SHEETS.iter().map(|s| s.to_string()).collect(),
            defined_names(),
            HashMap::new(),
            get_locale("en").expect("locale en"),
            get_language("en").expect("language en"),
        );
        Env { parser, ctx: host() }
    }

    fn parse(&mut self, text: &str, language: &str, locale: &str, mode: LexerMode) -> Node {
        self.parser.set_language(get_language(language).expect("language"));
        self.parser.set_locale(get_locale(locale).expect("locale"));
        self.parser.set_lexer_mode(mode);
        self.parser.parse(text, &self.ctx)
    }

    /// Print `t` with `p` and parse the text back the way the engine does for that form.
    /// Returns (printed text, expected tree, re-parsed tree); a panic of the printer or of the
    /// parser is returned as Err.
    fn round(&mut self, t: &Node, p: &Printer) -> Result<(String, Node, Node), panics::Panic> {
        panics::catch(|| self.round_inner(t, p))
    }

    fn round_inner(&mut self, t: &Node, p: &Printer) -> (String, Node, Node) {
        match p {
            Printer::Rc => {
                let s = to_rc_format(t);
                let back = self.parse(&s, "en", "en", LexerMode::R1C1);
                (s, normalize(t), normalize(&back))
            }
            Printer::English => {
                let s = to_english_string(t, &self.ctx);
                let back = self.parse(&s, "en", "en", LexerMode::A1);
                (s, normalize(t), normalize(&back))
            }
            Printer::Excel => {
                let s = to_excel_string(t, &self.ctx);
                let mut back = self.parse(&s, "en", "en", LexerMode::A1);
                // the importer's post-processing (xlsx/src/import/worksheets.rs::from_a1_to_rc),
                // applied to both sides: operators it (re-)inserts are not a difference
                add_implicit_intersection(&mut back, true);
                let mut want = t.clone();
                add_implicit_intersection(&mut want, true);
                (s, normalize(&want), normalize(&back))
            }
            Printer::Display(language, locale) => {
                let s = to_localized_string(
                    t,
                    &self.ctx,
                    get_locale(locale).expect("locale"),
                    get_language(language).expect("language"),
                );
                let back = self.parse(&s, language, locale, LexerMode::A1);
                (s, normalize(t), normalize(&back))
            }
        }
    }

    fn survives(&mut self, t: &Node, p: &Printer) -> bool {
        match self.round(t, p) {
            Ok((_, want, got)) => want == got,
            Err(_) => false,
        }
    }

    /// Root-cause class of a failing tree under printer `p` (see module doc).
    fn blame(&mut self, t: &Node, p: &Printer) -> String {
        // smallest failing sub-tree: post-order, first failure
        fn find<'a>(env: &mut Env, n: &'a Node, p: &Printer) -> Option<&'a Node> {
            for (_, c) in children(n) {
                if let Some(f) = find(env, c, p) {
                    return Some(f);
                }
            }
            if matches!(n, Node::EmptyArgKind) {
                return None; // cannot stand alone
            }
            if env.survives(n, p) { None } else { Some(n) }
        }
        let Some(s) = find(self, t, p) else {
            return "whole-formula-only".to_string();
        };
        let kids = children(s);
        if let Node::ArrayKind(rows) = s {
            use ironcalc_base::expressions::parser::ArrayNode;
            for e in rows.iter().flatten() {
                if !self.survives(&Node::ArrayKind(vec![vec![e.clone()]]), p) {
                    let class = match e {
                        ArrayNode::Boolean(_) => "Boolean",
                        ArrayNode::Number(x) => number_class(*x),
                        ArrayNode::String(_) => "String",
                        ArrayNode::Error(e) => error_class(e),
                        ArrayNode::Empty => "Empty",
                    };
                    return format!("token=Array-element:{class}");
                }
            }
            let one = ArrayNode::Number(1.0);
            if !self.survives(&Node::ArrayKind(vec![vec![one.clone(), one.clone()]]), p) {
                return "token=Array(column-separator)".to_string();
            }
            if !self.survives(&Node::ArrayKind(vec![vec![one.clone()], vec![one.clone()]]), p) {
                return "token=Array(row-separator)".to_string();
            }
            return "token=Array(other)".to_string();
        }
        if kids.is_empty() {
            return format!("token={}", token_class(s));
        }
        // neutral leaves: the parent with only neutral children must survive
        let leaves = [
            Node::NumberKind(1.0),
            Node::ReferenceKind { sheet_name: None, sheet_index: 0, absolute_row: true, absolute_column: true, row: 1, column: 1 },
            Node::NamedFunctionKind { id: None, name: "f".to_string(), args: vec![Node::NumberKind(1.0)] },
        ];
        for leaf in &leaves {
            let all: Vec<Node> = kids.iter().map(|(_, c)| if matches!(c, Node::EmptyArgKind) { Node::EmptyArgKind } else { leaf.clone() }).collect();
            if !self.survives(&with_children(s, all), p) {
                continue;
            }
            for (i, (slot, c)) in kids.iter().enumerate() {
                if matches!(c, Node::EmptyArgKind) {
                    continue;
                }
                let one: Vec<Node> = kids
                    .iter()
                    .enumerate()
                    .map(|(j, (_, d))| if j == i || matches!(d, Node::EmptyArgKind) { (*d).clone() } else { leaf.clone() })
                    .collect();
                if !self.survives(&with_children(s, one), p) {
                    return format!("parent={},child={},side={}", kind(s), kind(c), slot);
                }
            }
            let ks: Vec<String> = kids.iter().map(|(_, c)| kind(c)).collect();
            return format!("parent={},children={}", kind(s), ks.join("+"));
        }
        if let Node::NamedFunctionKind { name, .. } = s {
            if name.to_lowercase() != *name {
                return "token=NamedFunction(name-with-upper-case)".to_string();
            }
        }
        format!("parent={},child=*", kind(s))
    }
}

fn display_printers() -> Vec<Printer> {
    config::configs().into_iter().map(|(l, loc)| Printer::Display(l, loc)).collect()
}

/// Qualifier of the display family: how the set of failing configurations is determined.
fn display_class(failing: &[(String, String)], all: &[(String, String)]) -> String {
    if failing.len() == all.len() {
        return "display".to_string();
    }
    let comma = |loc: &str| get_locale(loc).map(|l| l.numbers.symbols.decimal != ".").unwrap_or(false);
    let langs: BTreeSet<&String> = failing.iter().map(|c| &c.0).collect();
    let locs: BTreeSet<&String> = failing.iter().map(|c| &c.1).collect();
    let by_language = all.iter().all(|c| langs.contains(&c.0) == failing.contains(c));
    let by_locale = all.iter().all(|c| locs.contains(&c.1) == failing.contains(c));
    if by_locale {
        if all.iter().all(|c| comma(&c.1) == locs.contains(&c.1)) {
            return "display[decimal-comma]".to_string();
        }
        return "display[locale-dependent]".to_string();
    }
    if by_language {
        return "display[language-dependent]".to_string();
    }
    "display[language+locale-dependent]".to_string()
}

// ------------------------------------------------------------------------------------------------
// model-level round trips

type Window = Vec<String>;

fn window(model: &Model) -> Result<Window, String> {
    let mut w = vec![];
    for r in HOST_ROW..HOST_ROW + 3 {
        for c in HOST_COL..HOST_COL + 3 {
            let v = model.get_cell_value_by_index(0, r, c)?;
            w.push(match v {
                CellValue::None => "blank".to_string(),
                CellValue::String(s) => format!("s:{s}"),
                // bit-exact: both sides are produced by the same computation
                CellValue::Number(n) => format!("n:{:016x}", n.to_bits()),
                CellValue::Boolean(b) => format!("b:{b}"),
            });
        }
    }
    Ok(w)
}

fn show(w: &Window) -> String {
    w.iter()
        .map(|s| match s.strip_prefix("n:") {
            Some(h) => format!("{}", f64::from_bits(u64::from_str_radix(h, 16).unwrap_or(0))),
            None => s.clone(),
        })
        .collect::<Vec<_>>()
        .join(" | ")
}

fn new_model(language: &'static str, locale: &'static str) -> Result<Model<'static>, String> {
    let mut m = Model::new_empty("c09", locale, "UTC", language)?;
    // the first sheet is named after the language
    m.rename_sheet_by_index(0, SHEETS[0])?;
    for s in &SHEETS[1..] {
        m.add_sheet(s)?;
    }
    // data in A1:D6 of every sheet; literals are typed as values, never as formulas
    let data: [(i32, i32, &str); 12] = [
        (1, 1, "2"),
        (1, 2, "3"),
        (1, 3, "0"),
        (2, 1, "5"),
        (2, 2, "7"),
        (2, 3, "abc"),
        (3, 1, "11"),
        (3, 2, "-4"),
        (4, 1, "TRUE"),
        (4, 2, "13"),
        (5, 1, "17"),
        (6, 4, "19"),
    ];
    for sheet in 0..SHEETS.len() as u32 {
        for (r, c, v) in data {
            m.set_user_input(sheet, r, c, v.to_string())?;
        }
    }
    m.new_defined_name("MyName", None, "Sheet1!$A$1")?;
    Ok(m)
}

fn leak(s: &str) -> &'static str {
    // language / locale ids: a handful of distinct short strings per process
    use std::sync::Mutex;
    static POOL: Mutex<Vec<&'static str>> = Mutex::new(Vec::new());
    let mut p = POOL.lock().unwrap();
    if let Some(x) = p.iter().find(|x| **x == s) {
        return x;
    }
    let l: &'static str = Box::leak(s.to_string().into_boxed_str());
    p.push(l);
    l
}

/// Err((signature tail, detail)) when a model-level round trip changes a value.
fn e2e(tree: &FTree, language: &str, locale: &str) -> Result<&'static str, (String, String)> {
    let style = Style::new(language, locale).map_err(|e| ("setup".to_string(), e))?;
    let text = format!("={}", fg::print(tree, &style));
    let (language, locale) = (leak(language), leak(locale));
    let setup = |e: String| ("setup".to_string(), e);
    // phase 1: build the workbook, type the formula, evaluate. A panic here is not a round-trip
    // failure (it belongs to C11 / C05); the case ends.
    let first = panics::catch(|| -> Result<Option<Model<'static>>, String> {
        let mut m = new_model(language, locale)?;
        if m.set_user_input(0, HOST_ROW, HOST_COL, text.clone()).is_err() {
            return Ok(None);
        }
        m.evaluate();
        Ok(Some(m))
    });
    let mut m = match first {
        Err(_) => return Ok("e2e-first-evaluation-panicked"),
        Ok(Err(e)) => return Err(setup(e)),
        Ok(Ok(None)) => return Ok("e2e-input-rejected"),
        Ok(Ok(Some(m))) => m,
    };
    // the property is about formulas the parser accepts: a text rejected in this language /
    // locale (stored verbatim as a parse error) is outside its premise
    if m.parsed_formulas.iter().flatten().any(|(n, _)| has_parse_error(n)) {
        return Ok("e2e-typed-text-rejected-in-this-configuration");
    }
    // phase 2: the round trips
    let r = panics::catch(|| -> Result<&'static str, (String, String)> {
        if m.get_cell_formula(0, HOST_ROW, HOST_COL).map_err(setup)?.is_none() {
            return Ok("e2e-not-a-formula");
        }
        let v0 = window(&m).map_err(setup)?;
        // save and reload
        let bytes = m.to_bytes();
        let mut m2 = Model::from_bytes(&bytes, language).map_err(|e| ("reload:from_bytes-fails".to_string(), format!("typed {text}: {e}")))?;
        m2.evaluate();
        let v2 = window(&m2).map_err(setup)?;
        if v2 != v0 {
            return Err((
                "reload:value".to_string(),
                format!(
                    "typed {text} [{language}/{locale}]: values {} ; after to_bytes/from_bytes {} ; stored form {:?}",
                    show(&v0),
                    show(&v2),
                    m.workbook.worksheets[0].shared_formulas
                ),
            ));
        }
        // what the user sees, typed again
        let shown = m.get_cell_formula(0, HOST_ROW, HOST_COL).map_err(setup)?.unwrap_or_default();
        let content = m.get_localized_cell_content(0, HOST_ROW, HOST_COL).map_err(setup)?;
        for (what, s) in [("get_cell_formula", shown), ("get_localized_cell_content", content)] {
            if let Err(e) = m.set_user_input(0, HOST_ROW, HOST_COL, s.clone()) {
                return Err((format!("reenter:{what}:rejected"), format!("typed {text} [{language}/{locale}], shown as {s}, re-entering fails: {e}")));
            }
            m.evaluate();
            let v1 = window(&m).map_err(setup)?;
            if v1 != v0 {
                return Err((
                    format!("reenter:{what}:value"),
                    format!("typed {text} [{language}/{locale}]: values {} ; shown as {s} ; after re-entering that: {}", show(&v0), show(&v1)),
                ));
            }
        }
        Ok("e2e-done")
    });
    match r {
        Ok(x) => x,
        Err(p) => Err((p.class(), format!("typed {text} [{language}/{locale}]: {}", p.describe()))),
    }
}

// ------------------------------------------------------------------------------------------------
// the check

fn precedence_levels(t: &Node) -> BTreeSet<u8> {
    let mut s = BTreeSet::new();
    crate::engine::nodes::walk(t, &mut |n| {
        let l = match n {
            Node::CompareKind { .. } => 1,
            Node::OpConcatenateKind { .. } => 2,
            Node::OpSumKind { .. } => 3,
            Node::OpProductKind { .. } => 4,
            Node::OpPowerKind { .. } => 5,
            Node::UnaryKind { .. } => 6,
            Node::OpRangeKind { .. } => 7,
            Node::ImplicitIntersection { .. } | Node::SpillRangeOperator { .. } => 8,
            _ => return,
        };
        s.insert(l);
    });
    s
}

fn has_localised_token(t: &Node) -> bool {
    let mut b = false;
    crate::engine::nodes::walk(t, &mut |n| match n {
        Node::BooleanKind(_) | Node::ErrorKind(_) | Node::FunctionKind { .. } | Node::ArrayKind(_) | Node::LambdaDefKind { .. } => b = true,
        Node::NumberKind(x) if x.fract() != 0.0 => b = true,
        Node::NamedFunctionKind { args, .. } if args.len() > 1 => b = true,
        Node::LambdaCallKind { args, .. } if args.len() > 1 => b = true,
        _ => {}
    });
    b
}

/// References small enough to evaluate (cost guard, not a semantic restriction).
fn cheap_to_evaluate(t: &Node) -> bool {
    ref_leaves(t, HOST_ROW, HOST_COL)
        .iter()
        .all(|l| l.row1 >= 1 && l.col1 >= 1 && l.row2 <= 64 && l.col2 <= 32)
}

/// For the detail of a parser-level failure: what the model-level round trips say about the same
/// formula (not part of the signature).
fn model_evidence(case: &Case, t: &Node) -> String {
    if !cheap_to_evaluate(t) {
        return "model level: not evaluated (large reference)".to_string();
    }
    let cfg = case.e2e.first().cloned().unwrap_or(("en".to_string(), "en".to_string()));
    match e2e(&case.tree, &cfg.0, &cfg.1) {
        Ok(l) => format!("model level [{}/{}]: values preserved ({l})", cfg.0, cfg.1),
        Err((sig, detail)) => format!("model level [{}/{}]: {sig}: {detail}", cfg.0, cfg.1),
    }
}

pub fn check(case: &Case) -> Outcome {
    let mut o = Outcome::pass();
    let en = Style::new("en", "en").expect("en style");
    let text = fg::print(&case.tree, &en);
    let mut env = Env::new();
    let parsed = panics::catch(|| env.parse(&text, "en", "en", LexerMode::A1));
    let t = match parsed {
        Ok(t) => t,
        Err(p) => {
            // a crash of the parser on typed text is C11's business; the case is dropped here
            return o.label(format!("parser-panicked:{}", p.class()));
        }
    };
    if has_parse_error(&t) {
        return o.label("rejected-by-parser");
    }
    o = o.label("accepted");
    o = o.label(format!("root:{}", kind(&t)));
    let levels = precedence_levels(&t);
    if levels.len() >= 2 || has_localised_token(&t) {
        o = o.nontrivial(text.clone());
    }
    if levels.len() >= 2 {
        o = o.label("nests-two-precedence-levels");
    }
    let mut pairs = BTreeSet::new();
    walk_pairs(&t, &mut |p, slot, c| {
        pairs.insert(format!("pair:{}>{}@{}", kind(p), kind(c), slot));
    });
    for p in pairs {
        o = o.label(p);
    }

    // parser-level round trips, fixed order of families
    let describe = |p: &Printer, s: &str, want: &Node, got: &Node| {
        format!("typed ={text}\n{:?} form: {s}\nparsed back as {:?}\nexpected      {:?}", p, got, want)
    };
    for p in [Printer::Rc, Printer::English, Printer::Excel] {
        match env.round(&t, &p) {
            Ok((s, want, got)) => {
                if want != got {
                    let sig = format!("C09:{}:{}", p.family(), env.blame(&t, &p));
                    return o.fail(sig, format!("{}\n{}", describe(&p, &s, &want, &got), model_evidence(case, &t)));
                }
            }
            Err(panic) => {
                // the panic location is the root cause
                let sig = format!("C09:{}", panic.class());
                return o.fail(sig, format!("typed ={text}: printing / re-parsing the {} form: {}", p.family(), panic.describe()));
            }
        }
    }
    let all = config::configs();
    let mut failing = vec![];
    let mut first: Option<(Printer, String)> = None;
    let mut first_panic: Option<String> = None;
    for p in display_printers() {
        let (bad, detail, panic_class) = match env.round(&t, &p) {
            Ok((s, want, got)) => (want != got, describe(&p, &s, &want, &got), None),
            Err(panic) => (true, format!("typed ={text}: printing / re-parsing the form {:?}: {}", p, panic.describe()), Some(panic.class())),
        };
        if bad {
            if let Printer::Display(l, loc) = &p {
                failing.push((l.clone(), loc.clone()));
            }
            if first.is_none() {
                first = Some((p, detail));
                first_panic = panic_class;
            }
        }
    }
    if let Some((p, detail)) = first {
        let sig = match first_panic {
            Some(pc) => format!("C09:{pc}"),
            None => format!("C09:{}:{}", display_class(&failing, &all), env.blame(&t, &p)),
        };
        let shown = if let Printer::Display(l, loc) = &p { vec![(l.clone(), loc.clone())] } else { vec![] };
        return o.fail(
            sig,
            format!(
                "{detail}\nfailing configurations: {}\n{}",
                failing.iter().map(|c| format!("{}/{}", c.0, c.1)).collect::<Vec<_>>().join(" "),
                model_evidence(&Case { tree: case.tree.clone(), e2e: shown }, &t)
            ),
        );
    }

    // model-level round trips
    if !case.e2e.is_empty() {
        if !cheap_to_evaluate(&t) {
            o.excluded += case.e2e.len() as u64;
            return o.label("e2e-skipped:large-reference");
        }
        for (language, locale) in &case.e2e {
            match e2e(&case.tree, language, locale) {
                Ok(l) => o = o.label(l),
                Err((sig, detail)) => return o.fail(format!("C09:e2e:{sig}"), detail),
            }
        }
    }
    o
}

// ------------------------------------------------------------------------------------------------
// bounded-exhaustive shapes

fn r(col: i32, row: i32) -> FTree {
    FTree::cell(col, row)
}

fn sheet_ref(name: &str, quoted: bool) -> FTree {
    FTree::Ref {
        sheet: Some(SheetRef { name: name.to_string(), quoted }),
        cell: CellRef { col: 1, row: 2, abs_col: false, abs_row: false },
    }
}

fn cr(col: i32, row: i32, abs: bool) -> CellRef {
    CellRef { col, row, abs_col: abs, abs_row: abs }
}

/// One representative of every child kind.
fn child_kinds() -> Vec<FTree> {
    let mut v = vec![
        FTree::num(5),
        FTree::Num("1.5".into()),
        FTree::Num("1E+20".into()),
        FTree::Str("a".into()),
        FTree::Str("q\"q".into()),
        FTree::Bool(true),
        r(1, 1),
        FTree::Ref { sheet: None, cell: cr(2, 2, true) },
        sheet_ref("Sheet2", false),
        sheet_ref("My Sheet", true),
        sheet_ref("It's", true),
        sheet_ref("Ghost", false),
        FTree::Range { sheet: None, a: cr(1, 1, false), b: cr(2, 2, false) },
        FTree::Range { sheet: Some(SheetRef { name: "Sheet2".into(), quoted: false }), a: cr(1, 1, true), b: cr(1, 3, false) },
        FTree::ColRange { sheet: None, a: cr(1, 1, false), b: cr(2, 1, false) },
        FTree::RowRange { sheet: None, a: cr(1, 1, false), b: cr(1, 2, true) },
        FTree::Name("x".into()),
        FTree::Name("MyName".into()),
        FTree::Name("r".into()),
        FTree::Array(vec![vec![FTree::num(1), FTree::num(2)], vec![FTree::num(3), FTree::Num("4.5".into())]]),
        FTree::Array(vec![vec![FTree::Bool(false), FTree::Str("s".into()), FTree::Err(ErrLit::Na), FTree::un(UnOp::Neg, FTree::num(2))]]),
        FTree::func("SUM", vec![FTree::num(1), FTree::num(2)]),
        FTree::func("PI", vec![]),
        FTree::func("FOO", vec![FTree::num(1)]),
        FTree::func("IF", vec![FTree::num(1), FTree::Empty, FTree::num(2)]),
        FTree::func("XLOOKUP", vec![FTree::num(5), FTree::Range { sheet: None, a: cr(1, 1, false), b: cr(1, 3, false) }, FTree::Range { sheet: None, a: cr(2, 1, false), b: cr(2, 3, false) }]),
        FTree::func("LET", vec![FTree::Name("y".into()), FTree::num(2), FTree::bin(BinOp::Mul, FTree::Name("y".into()), FTree::num(3))]),
        // a LET-bound lambda called by (upper-case) name
        FTree::func(
            "LET",
            vec![
                FTree::Name("F".into()),
                FTree::Lambda { params: vec![("a".into(), false)], body: Box::new(FTree::bin(BinOp::Add, FTree::Name("a".into()), FTree::num(1))), call: None },
                FTree::func("F", vec![FTree::num(2)]),
            ],
        ),
        FTree::Lambda { params: vec![("x".into(), false)], body: Box::new(FTree::bin(BinOp::Add, FTree::Name("x".into()), FTree::num(1))), call: None },
        FTree::Lambda { params: vec![("x".into(), false), ("y".into(), true)], body: Box::new(FTree::bin(BinOp::Add, FTree::Name("x".into()), FTree::num(1))), call: Some(vec![FTree::num(4)]) },
        FTree::un(UnOp::Neg, FTree::num(4)),
        FTree::un(UnOp::Pos, FTree::num(4)),
        FTree::un(UnOp::Percent, FTree::num(4)),
        FTree::At(Box::new(FTree::Range { sheet: None, a: cr(1, 1, false), b: cr(1, 3, false) })),
        FTree::Spill(Box::new(r(1, 1))),
    ];
    for e in fg::ERR_LITS {
        v.push(FTree::Err(e));
    }
    // more digits than the 15 the printers keep
    v.push(FTree::Num("12345678901234567890".into()));
    v.push(FTree::Array(vec![vec![FTree::Num("0.1234567890123456789".into())]]));
    // all columns, absolute: both a full-column and a full-row range
    v.push(FTree::ColRange { sheet: None, a: cr(1, 1, true), b: cr(16384, 1, true) });
    // one corner next to the host cell (relative offset +1 in the stored form), the other on the
    // last row / column of the grid: must not be taken for a whole column / whole row
    v.push(FTree::Range {
        sheet: None,
        a: CellRef { col: 1, row: HOST_ROW + 1, abs_col: false, abs_row: false },
        b: CellRef { col: 1, row: 1_048_576, abs_col: false, abs_row: true },
    });
    v.push(FTree::Range {
        sheet: None,
        a: CellRef { col: HOST_COL + 1, row: 1, abs_col: false, abs_row: false },
        b: CellRef { col: 16_384, row: 1, abs_col: true, abs_row: false },
    });
    v.push(FTree::Range {
        sheet: None,
        a: CellRef { col: 2, row: HOST_ROW + 1, abs_col: true, abs_row: false },
        b: CellRef { col: 3, row: 1_048_576, abs_col: true, abs_row: false },
    });
    // row 0 is not a row, but the lexer reads `0:0`
    v.push(FTree::RowRange { sheet: None, a: cr(1, 0, false), b: cr(1, 0, false) });
    for op in fg::BIN_OPS {
        if op == BinOp::Range {
            // `A1:B2` is one token; the range *operator* needs a non-reference operand
            v.push(FTree::bin(op, r(1, 1), FTree::func("INDEX", vec![FTree::Range { sheet: None, a: cr(1, 1, false), b: cr(2, 3, false) }, FTree::num(2), FTree::num(2)])));
        } else {
            v.push(FTree::bin(op, FTree::num(1), FTree::num(2)));
        }
    }
    // explicit @ below an operator (interesting inside scalar arguments for the xlsx form)
    for op in fg::BIN_OPS {
        if op != BinOp::Range {
            v.push(FTree::bin(op, FTree::At(Box::new(FTree::Range { sheet: None, a: cr(1, 1, false), b: cr(1, 3, false) })), FTree::num(3)));
        }
    }
    v.push(FTree::At(Box::new(FTree::func("IF", vec![FTree::Bool(true), FTree::At(Box::new(FTree::Range { sheet: None, a: cr(1, 1, false), b: cr(1, 3, false) })), FTree::num(0)]))));
    v
}

/// Every parent slot: a function from the hole's content to the parent tree.
fn slots() -> Vec<(String, Box<dyn Fn(FTree) -> FTree + Sync + Send>)> {
    let mut v: Vec<(String, Box<dyn Fn(FTree) -> FTree + Sync + Send>)> = vec![];
    v.push(("top".into(), Box::new(|h| h)));
    v.push(("sum-arg".into(), Box::new(|h| FTree::func("SUM", vec![h]))));
    for op in fg::BIN_OPS {
        if op == BinOp::Range {
            continue;
        }
        let (l, rr) = (FTree::num(7), FTree::num(3));
        let rr2 = rr.clone();
        v.push((format!("{}:left", op.text()), Box::new(move |h| FTree::bin(op, h, rr2.clone()))));
        v.push((format!("{}:right", op.text()), Box::new(move |h| FTree::bin(op, l.clone(), h))));
    }
    v.push(("neg".into(), Box::new(|h| FTree::un(UnOp::Neg, h))));
    v.push(("pos".into(), Box::new(|h| FTree::un(UnOp::Pos, h))));
    v.push(("percent".into(), Box::new(|h| FTree::un(UnOp::Percent, h))));
    v.push(("at".into(), Box::new(|h| FTree::At(Box::new(h)))));
    v.push(("spill".into(), Box::new(|h| FTree::Spill(Box::new(h)))));
    {
        let op = BinOp::Range;
        v.push((format!("{}:left", op.text()), Box::new(move |h| FTree::bin(op, h, r(2, 3)))));
        v.push((format!("{}:right", op.text()), Box::new(move |h| FTree::bin(op, r(1, 2), h))));
    }
    {
        let call = || FTree::func("INDEX", vec![FTree::Range { sheet: None, a: cr(1, 1, false), b: cr(2, 3, false) }, FTree::num(2), FTree::num(2)]);
        v.push((":left-of-call".into(), Box::new(move |h| FTree::bin(BinOp::Range, h, call()))));
        v.push((":right-of-call".into(), Box::new(move |h| FTree::bin(BinOp::Range, call(), h))));
    }
    v.push(("if-arg2".into(), Box::new(|h| FTree::func("IF", vec![FTree::Bool(true), h, FTree::num(0)]))));
    v.push(("unknown-arg".into(), Box::new(|h| FTree::func("foo", vec![FTree::num(1), h]))));
    v.push(("lambda-body".into(), Box::new(|h| FTree::Lambda { params: vec![("x".into(), false)], body: Box::new(h), call: Some(vec![FTree::num(1)]) })));
    v.push(("lambda-arg".into(), Box::new(|h| FTree::Lambda { params: vec![("x".into(), false)], body: Box::new(FTree::Name("x".into())), call: Some(vec![h]) })));
    v.push(("let-value".into(), Box::new(|h| FTree::func("LET", vec![FTree::Name("y".into()), h, FTree::Name("y".into())]))));
    v
}

fn e2e_configs_for(tree: &FTree, tier: Tier) -> Vec<(String, String)> {
    let all = config::configs();
    match tier {
        Tier::Thorough => all,
        Tier::Quick => {
            // en/en plus one other pair picked by the shape (deterministic)
            let text = fg::print_in(tree, "en", "en");
            let k = (crate::engine::ctx::hash64(&text) as usize) % all.len();
            let mut v = vec![("en".to_string(), "en".to_string())];
            if all[k] != v[0] {
                v.push(all[k].clone());
            }
            v
        }
    }
}

fn shapes(levels: u32, tier: Tier, e2e_on: bool) -> Vec<Case> {
    let kinds = child_kinds();
    let slots = slots();
    let mut out = vec![];
    let mut push = |tree: FTree| {
        let e2e = if e2e_on { e2e_configs_for(&tree, tier) } else { vec![] };
        out.push(Case { tree, e2e });
    };
    for (_, s1) in &slots {
        for k in &kinds {
            for paren in [false, true] {
                let c = if paren { FTree::paren(k.clone()) } else { k.clone() };
                if levels == 2 {
                    push(s1(c));
                } else {
                    for (_, s2) in &slots {
                        for paren2 in [false, true] {
                            let inner = s1(c.clone());
                            let inner = if paren2 { FTree::paren(inner) } else { inner };
                            push(s2(inner));
                        }
                    }
                }
            }
        }
    }
    out
}

// ------------------------------------------------------------------------------------------------
// random deep trees, steered away from listed (parent, child, side) combinations

fn combo_switch(parent: &str, child: &str, side: &str) -> String {
    format!("C09-combo:{parent}>{child}@{side}")
}

/// Listed combinations (avoid switches of known_findings.json).
fn listed_combos(ctx: &Ctx) -> BTreeSet<(String, String, String)> {
    let mut s = BTreeSet::new();
    for p in KINDS {
        for c in KINDS {
            for side in SIDES {
                if ctx.avoid(&combo_switch(p, c, side)) {
                    s.insert((p.to_string(), c.to_string(), side.to_string()));
                }
            }
        }
    }
    s
}

/// Node kind the engine will give a source node (through spaces, parentheses, `+` and pairs of
/// directly nested `-`, which the parser drops).
fn effective(t: &FTree) -> (String, &FTree) {
    match t {
        FTree::Ws(x) | FTree::Paren(x) => effective(x),
        FTree::Un(UnOp::Pos, _) | FTree::Un(UnOp::Neg, _) => {
            // a run of directly nested signs is folded into one sign
            let mut neg = false;
            let mut cur = t;
            loop {
                match cur {
                    FTree::Un(UnOp::Pos, x) => cur = x,
                    FTree::Un(UnOp::Neg, x) => {
                        neg = !neg;
                        cur = x
                    }
                    FTree::Ws(x) => cur = x,
                    _ => break,
                }
            }
            if neg { ("Unary(-)".to_string(), t) } else { effective(cur) }
        }
        FTree::Un(UnOp::Percent, _) => ("Unary(%)".to_string(), t),
        FTree::Bin(op, ..) => (
            match op {
                BinOp::Range => "OpRange",
                BinOp::Concat => "OpConcatenate",
                BinOp::Add => "OpSum(+)",
                BinOp::Sub => "OpSum(-)",
                BinOp::Mul | BinOp::Div => "OpProduct",
                BinOp::Pow => "OpPower",
                _ => "Compare",
            }
            .to_string(),
            t,
        ),
        FTree::At(_) => ("ImplicitIntersection".to_string(), t),
        FTree::Spill(_) => ("SpillRange".to_string(), t),
        FTree::Func { .. } => ("Function".to_string(), t),
        FTree::Lambda { call, .. } => (if call.is_some() { "LambdaCall" } else { "LambdaDef" }.to_string(), t),
        FTree::Array(_) => ("Array".to_string(), t),
        _ => ("leaf".to_string(), t),
    }
}

/// Wraps a child that would form a listed combination with its parent into `SUM(..)` (an
/// argument slot never needs parentheses); `excluded` counts the wrapped children.
fn steer(t: &FTree, listed: &BTreeSet<(String, String, String)>, excluded: &std::cell::Cell<u64>) -> FTree {
    let (pk, _) = effective(t);
    let fix = |c: &FTree, side: &str| -> FTree {
        let c2 = steer(c, listed, excluded);
        let (ck, _) = effective(&c2);
        // calls: both spellings the parser may choose
        let hit = listed.contains(&(pk.clone(), ck.clone(), side.to_string()))
            || (ck == "Function" && listed.contains(&(pk.clone(), "NamedFunction".to_string(), side.to_string())));
        if hit {
            excluded.set(excluded.get() + 1);
            FTree::func("SUM", vec![c2])
        } else {
            c2
        }
    };
    match t {
        FTree::Bin(op, l, rr) => {
            let l2 = fix(l, "left");
            let r2 = fix(rr, "right");
            FTree::Bin(*op, Box::new(l2), Box::new(r2))
        }
        FTree::Un(op, x) => {
            // only the outermost sign of a run is a node; inner signs are looked through
            let x2 = if pk == "Unary(-)" || pk == "Unary(%)" { fix(x, "operand") } else { steer(x, listed, excluded) };
            FTree::Un(*op, Box::new(x2))
        }
        FTree::At(x) => FTree::At(Box::new(fix(x, "operand"))),
        FTree::Spill(x) => FTree::Spill(Box::new(fix(x, "operand"))),
        other => fg::map_children(other, &|c| steer(c, listed, excluded), &|n| n),
    }
}

/// Avoidance switches of the listed findings (known_findings.json), resolved once per run.
pub struct Steer {
    combos: BTreeSet<(String, String, String)>,
    /// error literals are printed in English by the localised printer
    errors: bool,
    /// #N/IMPL! is printed without its '!'
    nimpl: bool,
    /// the row separator of array literals in decimal-comma locales
    array_rows: bool,
    /// numbers with more than 15 significant digits
    long_numbers: bool,
    /// operands of the range operator other than reference : call
    oprange: bool,
    /// a call with a long name after ':' overflows column_to_number
    column_overflow: bool,
    /// explicit @ below an operator inside a function argument / inside another @
    excel_at: bool,
    /// `$A:$XFD` / `$1:$1048576`: printed as `:`
    whole_sheet: bool,
}

impl Steer {
    pub fn from_ctx(ctx: &Ctx) -> Steer {
        Steer {
            combos: listed_combos(ctx),
            errors: ctx.avoid("C09-token:Error"),
            nimpl: ctx.avoid("C09-token:Error(NIMPL)"),
            array_rows: ctx.avoid("C09-token:Array(row-separator)"),
            long_numbers: ctx.avoid("C09-token:Number(more-than-15-significant-digits)"),
            oprange: ctx.avoid("C09-oprange-operands"),
            column_overflow: ctx.avoid("C09-column-overflow"),
            excel_at: ctx.avoid("C09-excel-at-below-operator"),
            whole_sheet: ctx.avoid("C09-token:Range(whole-sheet)"),
        }
    }

    fn switches_on(&self) -> usize {
        self.combos.len()
            + [self.errors, self.nimpl, self.array_rows, self.long_numbers, self.oprange, self.column_overflow, self.excel_at, self.whole_sheet]
                .iter()
                .filter(|b| **b)
                .count()
    }

    /// Token-level and operand-level rewrites. `in_arg`: inside a call argument; `below_op`:
    /// additionally below an operator there; `in_at`: inside the operand of an `@`.
    fn pre(&self, t: &FTree, in_arg: bool, below_op: bool, in_at: bool, n: &std::cell::Cell<u64>) -> FTree {
        let hit = || n.set(n.get() + 1);
        match t {
            FTree::Err(e) => {
                if self.errors || (self.nimpl && *e == ErrLit::Nimpl) {
                    hit();
                    FTree::Num("404".into())
                } else {
                    t.clone()
                }
            }
            FTree::Num(x) => {
                let long = x.parse::<f64>().map(|v| !fits_15_digits(v)).unwrap_or(false);
                if self.long_numbers && long {
                    hit();
                    FTree::Num("123456789012345".into())
                } else {
                    t.clone()
                }
            }
            FTree::ColRange { sheet, a, b } if self.whole_sheet && a.abs_col && b.abs_col && a.col.min(b.col) == 1 && a.col.max(b.col) == 16384 => {
                hit();
                let mut b = *b;
                b.abs_col = false;
                FTree::ColRange { sheet: sheet.clone(), a: *a, b }
            }
            FTree::RowRange { sheet, a, b } if self.whole_sheet && a.abs_row && b.abs_row && a.row.min(b.row) == 1 && a.row.max(b.row) == 1_048_576 => {
                hit();
                let mut b = *b;
                b.abs_row = false;
                FTree::RowRange { sheet: sheet.clone(), a: *a, b }
            }
            FTree::Range { sheet, a, b }
                if self.whole_sheet
                    && a.abs_col && b.abs_col && a.abs_row && b.abs_row
                    && a.col.min(b.col) == 1 && a.col.max(b.col) == 16384
                    && a.row.min(b.row) == 1 && a.row.max(b.row) == 1_048_576 =>
            {
                hit();
                let mut b = *b;
                b.abs_row = false;
                FTree::Range { sheet: sheet.clone(), a: *a, b }
            }
            FTree::Array(rows) => {
                let mut rows: Vec<Vec<FTree>> = rows.iter().map(|r| r.iter().map(|e| self.pre(e, in_arg, below_op, in_at, n)).collect()).collect();
                if self.array_rows && rows.len() > 1 {
                    hit();
                    rows.truncate(1);
                }
                FTree::Array(rows)
            }
            FTree::Bin(op, l, r) => {
                let l2 = self.pre(l, in_arg, in_arg, in_at, n);
                let r2 = self.pre(r, in_arg, in_arg, in_at, n);
                let mut op = *op;
                if op == BinOp::Range && self.oprange {
                    let (_, le) = effective(&l2);
                    let (_, re) = effective(&r2);
                    // a `$` or a sheet prefix before the range operator does not lex (listed)
                    let left_ok = matches!(le, FTree::Ref { sheet: None, cell } if !cell.abs_col && !cell.abs_row) || matches!(le, FTree::Func { .. });
                    let right_ok = match re {
                        FTree::Func { name, .. } => !(self.column_overflow && name.len() > 6),
                        _ => false,
                    };
                    if !(left_ok && right_ok) {
                        hit();
                        op = BinOp::Add;
                    }
                }
                FTree::Bin(op, Box::new(l2), Box::new(r2))
            }
            FTree::Un(op, x) => FTree::Un(*op, Box::new(self.pre(x, in_arg, in_arg, in_at, n))),
            FTree::Spill(x) => FTree::Spill(Box::new(self.pre(x, in_arg, in_arg, in_at, n))),
            FTree::At(x) => {
                // `@x%` is read as `(@x)%`: the `@` ends up below the operator
                let postfix = in_arg && matches!(x.as_ref(), FTree::Un(UnOp::Percent, _));
                if self.excel_at && (below_op || in_at || postfix) {
                    hit();
                    self.pre(x, in_arg, below_op, in_at, n)
                } else {
                    FTree::At(Box::new(self.pre(x, in_arg, in_arg, true, n)))
                }
            }
            FTree::Func { name, args } => FTree::Func { name: name.clone(), args: args.iter().map(|a| self.pre(a, true, false, in_at, n)).collect() },
            FTree::Lambda { params, body, call } => FTree::Lambda {
                params: params.clone(),
                body: Box::new(self.pre(body, true, false, in_at, n)),
                call: call.as_ref().map(|c| c.iter().map(|a| self.pre(a, true, false, in_at, n)).collect()),
            },
            FTree::Paren(x) => FTree::Paren(Box::new(self.pre(x, in_arg, below_op, in_at, n))),
            FTree::Ws(x) => FTree::Ws(Box::new(self.pre(x, in_arg, below_op, in_at, n))),
            other => other.clone(),
        }
    }

    /// The tree steered away from every listed trigger, and how many rewrites that took.
    pub fn apply(&self, t: &FTree) -> (FTree, u64) {
        let n = std::cell::Cell::new(0);
        let t1 = self.pre(t, false, false, false, &n);
        let t2 = steer(&t1, &self.combos, &n);
        (t2, n.get())
    }
}

// ------------------------------------------------------------------------------------------------

pub fn run(ctx: &Ctx) {
    ctx.set_rule(
        "Case = formula source tree with explicit parentheses, printed in en/en and parsed by the engine (T). \
         Bounded-exhaustive: every (parent slot, child kind, with/without source parentheses) two-level shape \
         (13 binary operators x 2 sides, unary -, +, %, @, #, function / LAMBDA / LET argument slots, top level) x \
         (literals, every error, references of every shape, names, arrays, calls, LET, LAMBDA, every operator) in \
         every tier, three-level shapes in thorough; random deeper trees (depth <= 4 quick / 6 thorough) on top. \
         Every T is printed with to_rc_format, to_english_string, to_excel_string and to_localized_string in all \
         language x locale pairs and parsed back in the matching mode; model-level re-entry and to_bytes/from_bytes \
         compare the 3x3 value window at the host cell. Non-trivial: T nests operators of >= 2 precedence levels \
         or contains a token whose text depends on language / locale (boolean, error, function name, decimal \
         number, argument or array separator); distinct by the en/en text.",
    );
    ctx.assume("texts the parser rejects are dropped (label rejected-by-parser); a parser panic on typed text is C11's business (label parser-panicked)");
    ctx.assume("xlsx form: both sides are post-processed with add_implicit_intersection as the importer does; the automatic flag of @ and LET/LAMBDA variable ids are not compared");
    ctx.assume("model-level round trips are run only when every reference stays inside rows 1..64 x columns 1..32 (cost guard; counted under excluded_by_construction)");
    ctx.assume("structured (table) references are not generated");
    // generator health: every pool function exists in the engine's English table
    let en = get_language("en").expect("language en");
    for (name, _, _) in fg::CORE_FUNCTIONS {
        if en.functions.lookup(name).is_none() {
            ctx.note(format!("generator health: function {name} is not known to the engine"));
        }
    }
    let enc = |c: &Case| serde_json::to_value(c).unwrap_or(Value::Null);

    if let Ok(what) = std::env::var("VERIF_C09_SURVEY") {
        // development aid: every distinct failure signature of the shape sweep with one example
        let levels = if what == "3" { 3 } else { 2 };
        let mut seen: std::collections::BTreeMap<String, (u64, String, Value)> = Default::default();
        for c in shapes(levels, ctx.tier, levels == 2) {
            let o = check(&c);
            if let Some(f) = o.failure {
                let e = seen.entry(f.signature.clone()).or_insert((0, f.detail.clone(), enc(&c)));
                e.0 += 1;
            }
        }
        for (sig, (n, detail, case)) in &seen {
            println!("SURVEY {n:6} {sig}\n    {}\n    CASE {}", detail.replace('\n', "\n    "), case);
        }
        println!("SURVEY distinct signatures: {}", seen.len());
        return;
    }

    // development aid: VERIF_C09_SKIP_SHAPES=1 runs the random campaign alone (sensitivity of it)
    let skip_shapes = std::env::var("VERIF_C09_SKIP_SHAPES").is_ok();
    let two = if skip_shapes { vec![] } else { shapes(2, ctx.tier, true) };
    ctx.note(format!("two-level shapes: {}", two.len()));
    ctx.enumerate("shapes-2", &two, check, enc);
    if ctx.tier == Tier::Thorough && !skip_shapes {
        let three = shapes(3, ctx.tier, false);
        ctx.note(format!("three-level shapes: {}", three.len()));
        ctx.enumerate("shapes-3", &three, check, enc);
    }

    let steer = Steer::from_ctx(ctx);
    ctx.note(format!("avoidance switches of listed findings that are on for the random campaign: {}", steer.switches_on()));
    let (cases, depth, e2e_every) = match ctx.tier {
        Tier::Quick => (200_000u64, 4u32, 4u64),
        Tier::Thorough => (3_000_000, 6, 4),
    };
    let profile = Profile::all();
    let all = config::configs();
    let steer_ref = &steer;
    ctx.campaign(
        "deep-trees",
        cases,
        || {
            let all = all.clone();
            (fg::source_strategy(&profile, depth, 3, 75), 0..all.len(), 0..e2e_every).prop_map(move |(tree, k, dice)| {
                let e2e = if dice == 0 { vec![all[k].clone()] } else { vec![] };
                Case { tree, e2e }
            })
        },
        |c| {
            let (tree, n) = steer_ref.apply(&c.tree);
            let mut o = check(&Case { tree, e2e: c.e2e.clone() });
            o.excluded += n;
            if n > 0 {
                o = o.label("steered-away-from-listed-trigger");
            }
            if let Some(f) = &o.failure {
                // what still reaches a (listed or new) failure in spite of the steering
                let l = format!("deep-trees-fails:{}", f.signature);
                o = o.label(l);
            }
            o
        },
        |c| {
            let (tree, _) = steer_ref.apply(&c.tree);
            enc(&Case { tree, e2e: c.e2e.clone() })
        },
    );
}

pub fn replay(_ctx: &Ctx, _campaign: &str, case: &Value) -> Result<Outcome, String> {
    let c: Case = serde_json::from_value(case.clone()).map_err(|e| e.to_string())?;
    Ok(check(&c))
}
