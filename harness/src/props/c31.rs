//! C31 — Dynamic-array spills are exact and never stale.
//!
//! Histories through `UserModel` on one sheet (operation language `engine::ops::Op`, generator
//! written for this property): size inputs, dynamic-array formulas whose result size depends on
//! cells and on other spills (`=SEQUENCE(A1,B1)`, `=A1:C3`, `=A1:A4*2`, `={1,2;3,4}`, `=D1#`,
//! `=D1#+1`, `=TRANSPOSE(range)`), blockers typed in and next to spill areas (also into spill
//! cells), anchors at the grid edge, clears, row/column insert/delete/move through anchors and
//! spill areas, cut/copy-paste of anchors, undo/redo.
//!
//! After every evaluated step a validity predicate is checked on the stored cells:
//!  * each dynamic anchor whose *reference result* is an m x n array either fills exactly that
//!    block with its own spill cells holding the reference elements (anchor = first element), or
//!    shows #SPILL!, has stored size 1x1, owns no spill cell, and the block really leaves the
//!    grid or contains foreign content (an empty styled cell is not content; two anchors whose
//!    blocks overlap may both show #SPILL!);
//!  * every spill cell belongs to an existing anchor and lies inside that anchor's stored block
//!    (for checked anchors: its current result);
//!  * in the paused variant (evaluation paused, explicit `evaluate()` after each op) no cell that
//!    held user content before `evaluate()` holds different content or became a spill cell after.
//! The reference result is computed by the engine on a fresh workbook that contains only the
//! stored values of the cells the formula reads (`evalkit::reference_result`); `X#` operands see
//! a literal array holding X's current block. This shares single-formula semantics with the
//! engine but none of the spill bookkeeping under test.

use std::collections::{BTreeMap, BTreeSet};

use ironcalc_base::types::Cell;
use ironcalc_base::Model;
use proptest::prelude::*;
use serde::{Deserialize, Serialize};
use serde_json::Value;

use super::evalkit::{self as kit, Pos, RefResult};
use crate::engine::ops::{self, Applied, Op, A, LAST_COLUMN, LAST_ROW};
use crate::engine::nodes;
use crate::engine::panics;
use crate::engine::snapshot::{cell_value, TV};
use crate::engine::{Ctx, Outcome, Tier};

#[derive(Clone, Debug, Serialize, Deserialize, PartialEq)]
pub struct Case {
    pub ops: Vec<Op>,
    /// run with evaluation paused and an explicit `evaluate()` after every op (enables the
    /// "nothing the user typed was overwritten by evaluate()" check)
    pub paused: bool,
}

#[derive(Clone, Copy, Debug, PartialEq)]
pub struct Avoid {
    pub spill_ref: bool,
    pub raw_result: bool,
    pub paste_spill: bool,
    pub paste_onto_spill: bool,
    pub stale: bool,
    pub leftover: bool,
    pub starved: bool,
    pub undo_delete: bool,
}

impl Avoid {
    pub fn none() -> Avoid {
        Avoid { spill_ref: false, raw_result: false, paste_spill: false, paste_onto_spill: false, stale: false, leftover: false, starved: false, undo_delete: false }
    }
}

fn is_spill_err(v: &TV) -> bool {
    matches!(v, TV::Err(k) if k == "#SPILL!")
}

struct Verdict {
    /// (kind, anchor/cell, detail)
    failure: Option<(String, Pos, String)>,
    anchors: Vec<(Pos, i32, i32)>,
    blocked: usize,
    skipped: Vec<&'static str>,
}

/// The validity predicate on one evaluated workbook state.
fn validate(model: &Model, avoid: Avoid, vanished: &BTreeMap<Pos, Pos>, excluded: &mut u64) -> Verdict {
    let mut v = Verdict { failure: None, anchors: kit::all_dynamic_anchors(model), blocked: 0, skipped: vec![] };
    let trig = kit::spill_triggers(model);
    let graph = kit::Graph::build_ext(model, true);
    // spill cells by owner
    let mut owned: BTreeMap<Pos, Vec<Pos>> = BTreeMap::new();
    for (si, ws) in model.workbook.worksheets.iter().enumerate() {
        for (&r, rd) in &ws.sheet_data {
            for (&c, cell) in rd {
                if let Cell::SpillCell { a, .. } = cell {
                    owned.entry((si as u32, a.0, a.1)).or_default().push((si as u32, r, c));
                }
            }
        }
    }
    // ---- global: every spill cell has an anchor and lies in its stored block
    for (a, cells) in &owned {
        match model.workbook.worksheets[a.0 as usize].cell(a.1, a.2) {
            Some(Cell::ArrayFormula { r, .. }) => {
                for p in cells {
                    if !(p.1 >= a.1 && p.1 < a.1 + r.1 && p.2 >= a.2 && p.2 < a.2 + r.0) {
                        v.failure = Some((
                            "stale-spill-cell-outside-anchor-block".into(),
                            *a,
                            format!("{} is a spill cell of {} whose stored block is {}x{}", kit::pos_name(*p), kit::pos_name(*a), r.1, r.0),
                        ));
                        return v;
                    }
                }
            }
            _ => {
                v.failure = Some((
                    "spill-cell-without-anchor".into(),
                    *a,
                    format!("{} is a spill cell of {} which is not an array formula", kit::pos_name(cells[0]), kit::pos_name(*a)),
                ));
                return v;
            }
        }
    }
    // would-be blocks of the anchors that show #SPILL! (for the mutual-block excuse)
    let mut refs: BTreeMap<Pos, RefResult> = BTreeMap::new();
    for (a, _, _) in &v.anchors {
        refs.insert(*a, kit::reference_result(model, *a));
    }
    let wouldbe = |a: &Pos| -> Option<(i32, i32)> {
        match refs.get(a) {
            Some(RefResult::Array(w, h, _)) => Some((*w, *h)),
            _ => None,
        }
    };
    let blocks: BTreeMap<Pos, (i32, i32)> = v
        .anchors
        .iter()
        .map(|(q, w, h)| (*q, wouldbe(q).map(|(bw, bh)| (bw.max(*w), bh.max(*h))).unwrap_or((*w, *h))))
        .collect();
    for (a, w, h) in v.anchors.clone() {
        let val = cell_value(model, a.0, a.1, a.2);
        let own: &[Pos] = owned.get(&a).map(|x| x.as_slice()).unwrap_or(&[]);
        if is_spill_err(&val) && (w, h) == (1, 1) {
            v.blocked += 1;
        }
        let circular = graph.index.get(&a).map(|&i| graph.tainted[i]).unwrap_or(false)
            || trig.own_spill_readers.contains(&a)
            || kit::circular_through_would_be_blocks(model, &graph, &blocks, a);
        if circular {
            // the formula depends on itself (directly, through other cells, or through its own
            // spill area): no reference result is defined
            v.skipped.push("skip:circular");
            continue;
        }
        // The engine reports a cycle in the block while the stored inputs show none: cycles that
        // close through spill areas which exist only while the pass runs (would-be blocks of
        // anchors that end up in error, leftovers of the previous pass) are invisible to the
        // static analysis above. Whether #CIRC! is justified is C05's question, not C31's.
        {
            let circ = |t: &TV| matches!(t, TV::Err(k) if k == "#CIRC!");
            let block_has_circ = (0..h).any(|dr| (0..w).any(|dc| circ(&cell_value(model, a.0, a.1 + dr, a.2 + dc))));
            let reference_has_circ = match refs.get(&a) {
                Some(RefResult::Array(_, _, els)) => els.iter().any(|r| r.iter().any(circ)),
                Some(RefResult::Scalar(x)) => circ(x),
                _ => false,
            };
            if block_has_circ && !reference_has_circ {
                v.skipped.push("skip:engine-reports-circ");
                continue;
            }
        }
        if avoid.spill_ref && trig.stale_spill_ref_cells.contains(&a) {
            *excluded += 1;
            v.skipped.push("excluded:spill-ref-before-target");
            continue;
        }
        if avoid.raw_result && trig.blocked_anchor_readers.contains(&a) {
            *excluded += 1;
            v.skipped.push("excluded:reads-blocked-dynamic-array");
            continue;
        }
        if avoid.stale && trig.stale_readers.contains(&a) {
            *excluded += 1;
            v.skipped.push("excluded:demanded-anchor-reads-later-spill");
            continue;
        }
        if avoid.starved && kit::needs_reorder_while_starved(model, &graph, &v.anchors, a) {
            *excluded += 1;
            v.skipped.push("excluded:anchor-cycle-exhausts-restarts");
            continue;
        }
        if avoid.leftover && touches_vanished(model, &graph, a, refs.get(&a), vanished) {
            *excluded += 1;
            v.skipped.push("excluded:leftover-spill-of-previous-pass");
            continue;
        }
        // would spilling the reference result make the formula depend on itself?
        match refs.get(&a) {
            Some(RefResult::Array(rw, rh, _)) if (*rw, *rh) != (w, h) => {
                let block: BTreeSet<Pos> = (0..*rh)
                    .flat_map(|dr| (0..*rw).map(move |dc| (dr, dc)))
                    .filter(|d| *d != (0, 0))
                    .map(|(dr, dc)| (a.0, a.1 + dr, a.2 + dc))
                    .collect();
                if kit::reach_reads_any(model, &graph, a, &block) {
                    v.skipped.push("skip:circular-if-spilled");
                    continue;
                }
            }
            Some(RefResult::SpillInIsolation) if matches!(&val, TV::Err(k) if k == "#CIRC!") => {
                v.skipped.push("skip:circular-if-spilled");
                continue;
            }
            _ => {}
        }
        let fail = |kind: &str, detail: String| Some((kind.to_string(), a, detail));
        match refs.get(&a).cloned().unwrap_or(RefResult::Unknown("missing")) {
            RefResult::Unknown(why) => {
                v.skipped.push(match why {
                    "reads-own-spill" => "skip:reads-own-spill",
                    "spill-ref-to-non-anchor" => "skip:spill-ref-to-non-anchor",
                    "spill-ref-to-error-anchor" => "skip:spill-ref-to-error-anchor",
                    _ => "skip:reference-unknown",
                });
                // still: a #SPILL! anchor owns nothing
                if is_spill_err(&val) && (w, h) == (1, 1) && !own.is_empty() {
                    v.failure = fail("spill-error-but-owns-spill-cells", format!("{} shows #SPILL! but still owns {}", kit::pos_name(a), kit::pos_name(own[0])));
                    return v;
                }
            }
            RefResult::Scalar(_) => v.skipped.push("skip:reference-scalar"),
            RefResult::SpillInIsolation => {
                if !(is_spill_err(&val) && (w, h) == (1, 1) && own.is_empty()) {
                    v.failure = fail(
                        "spills-over-own-inputs-or-grid-edge",
                        format!("{}: alone with the cells it reads the formula cannot spill (grid edge or its own inputs are in the way) but here it stores {} with block {}x{} and {} spill cells", kit::pos_name(a), val.render(false), h, w, own.len()),
                    );
                    return v;
                }
                let at_edge = a.1 >= LAST_ROW - 8 || a.2 >= LAST_COLUMN - 8;
                v.skipped.push(if at_edge { "checked:spill-error-at-grid-edge" } else { "checked:spill-error-over-own-inputs" });
            }
            RefResult::Array(rw, rh, els) => {
                let spilled_ok = (w, h) == (rw, rh) && {
                    let mut ok = true;
                    'outer: for dr in 0..rh {
                        for dc in 0..rw {
                            let p = (a.0, a.1 + dr, a.2 + dc);
                            let cell = model.workbook.worksheets[a.0 as usize].cell(p.1, p.2);
                            let is_own = if (dr, dc) == (0, 0) { true } else { matches!(cell, Some(Cell::SpillCell { a: o, .. }) if *o == (a.1, a.2)) };
                            if !is_own || kit::key15(&cell_value(model, p.0, p.1, p.2)) != kit::key15(&els[dr as usize][dc as usize]) {
                                ok = false;
                                break 'outer;
                            }
                        }
                    }
                    ok && own.len() as i32 == rw * rh - 1
                };
                if spilled_ok {
                    v.skipped.push(if rw * rh > 1 { "checked:block-exact" } else { "checked:single-cell-exact" });
                    continue;
                }
                if is_spill_err(&val) && (w, h) == (1, 1) && (rw, rh) != (1, 1) {
                    if !own.is_empty() {
                        v.failure = fail("spill-error-but-owns-spill-cells", format!("{} shows #SPILL! but still owns {}", kit::pos_name(a), kit::pos_name(own[0])));
                        return v;
                    }
                    let leaves_grid = a.1 + rh - 1 > LAST_ROW || a.2 + rw - 1 > LAST_COLUMN;
                    let mut foreign = false;
                    for dr in 0..rh {
                        for dc in 0..rw {
                            if (dr, dc) == (0, 0) {
                                continue;
                            }
                            match model.workbook.worksheets[a.0 as usize].cell(a.1 + dr, a.2 + dc) {
                                None | Some(Cell::EmptyCell { .. }) => {}
                                Some(_) => foreign = true,
                            }
                        }
                    }
                    let mutual = v.anchors.iter().any(|(q, qw, qh)| {
                        *q != a
                            && q.0 == a.0
                            && (*qw, *qh) == (1, 1)
                            && is_spill_err(&cell_value(model, q.0, q.1, q.2))
                            && wouldbe(q)
                                .map(|(bw, bh)| q.1 < a.1 + rh && a.1 < q.1 + bh && q.2 < a.2 + rw && a.2 < q.2 + bw)
                                .unwrap_or(true)
                    });
                    if leaves_grid || foreign || mutual {
                        v.skipped.push(if leaves_grid {
                            "checked:spill-error-justified-by-grid-edge"
                        } else if foreign {
                            "checked:spill-error-justified-by-content"
                        } else {
                            "checked:spill-error-justified-by-mutual-block"
                        });
                        continue;
                    }
                    v.failure = fail(
                        "spill-error-without-blocker",
                        format!("{} shows #SPILL! but its {}x{} block is inside the grid and holds no other content", kit::pos_name(a), rh, rw),
                    );
                    return v;
                }
                // neither exact nor a justified #SPILL!
                let kind = if (w, h) != (rw, rh) {
                    "wrong-size"
                } else if own.len() as i32 != rw * rh - 1 {
                    "block-not-owned"
                } else {
                    "wrong-element"
                };
                let mut got = vec![];
                for dr in 0..h.min(4) {
                    for dc in 0..w.min(4) {
                        got.push(cell_value(model, a.0, a.1 + dr, a.2 + dc).render(false));
                    }
                }
                let want: Vec<String> = els.iter().take(4).flat_map(|r| r.iter().take(4).map(|x| x.render(false))).collect();
                v.failure = fail(
                    kind,
                    format!(
                        "{} `{}`: stored block {}x{} [{}] (owns {} spill cells); reference result over the stored inputs {}x{} [{}]",
                        kit::pos_name(a),
                        model.get_cell_formula(a.0, a.1, a.2).ok().flatten().unwrap_or_default(),
                        h,
                        w,
                        got.join(","),
                        own.len(),
                        rh,
                        rw,
                        want.join(",")
                    ),
                );
                return v;
            }
        }
    }
    v
}

/// The formula at `a` (or something it reads) reads, or its reference block covers, a position
/// that held a spill cell before this step and does not hold a spill cell of the same anchor now.
fn touches_vanished(model: &Model, g: &kit::Graph, a: Pos, reference: Option<&RefResult>, vanished: &BTreeMap<Pos, Pos>) -> bool {
    if vanished.is_empty() {
        return false;
    }
    if let Some(RefResult::Array(rw, rh, _)) = reference {
        if vanished.keys().any(|p| p.0 == a.0 && p.1 >= a.1 && p.1 < a.1 + rh && p.2 >= a.2 && p.2 < a.2 + rw) {
            return true;
        }
    }
    let positions: BTreeSet<Pos> = vanished.keys().copied().collect();
    if kit::reach_reads_any(model, g, a, &positions) {
        return true;
    }
    // a spill cell this anchor owned before the step is read by some other formula: reading the
    // leftover demands this anchor early, before the cells it depends on are up to date
    let mine: Vec<Pos> = vanished.iter().filter(|(_, o)| **o == a).map(|(p, _)| *p).collect();
    if mine.is_empty() {
        return false;
    }
    g.cells.iter().any(|x| {
        *x != a
            && kit::node_of(model, *x)
                .and_then(|n| kit::read_rects_ext(model, n, *x, true))
                .map(|rects| rects.iter().any(|&(s, r1, c1, r2, c2)| mine.iter().any(|p| p.0 == s && p.1 >= r1 && p.1 <= r2 && p.2 >= c1 && p.2 <= c2)))
                .unwrap_or(false)
    })
}

fn spill_owners(model: &Model) -> BTreeMap<Pos, Pos> {
    let mut out = BTreeMap::new();
    for (si, ws) in model.workbook.worksheets.iter().enumerate() {
        for (&r, rd) in &ws.sheet_data {
            for (&c, cell) in rd {
                if let Cell::SpillCell { a, .. } = cell {
                    out.insert((si as u32, r, c), (si as u32, a.0, a.1));
                }
            }
        }
    }
    out
}

/// Non-spill, non-empty cells with their content text.
fn user_content(model: &Model) -> BTreeMap<Pos, String> {
    let mut out = BTreeMap::new();
    for (si, ws) in model.workbook.worksheets.iter().enumerate() {
        for (&r, rd) in &ws.sheet_data {
            for (&c, cell) in rd {
                match cell {
                    Cell::EmptyCell { .. } | Cell::SpillCell { .. } => {}
                    _ => {
                        let t = model.get_localized_cell_content(si as u32, r, c).unwrap_or_default();
                        out.insert((si as u32, r, c), t);
                    }
                }
            }
        }
    }
    out
}

pub fn check(case: &Case, avoid: Avoid) -> Outcome {
    let mut o = Outcome::pass();
    let mut um = ops::new_user_model("en", "en");
    if case.paused {
        um.pause_evaluation();
    }
    let mut sizes: BTreeMap<Pos, BTreeSet<(i32, i32)>> = BTreeMap::new();
    let mut ever_blocked = false;
    let mut steps_checked = 0;
    let mut prev_spills: BTreeMap<Pos, Pos> = BTreeMap::new();
    // per recorded history entry: was it a row/column deletion of a band some formula read?
    let mut undo_stack: Vec<(&'static str, bool)> = vec![];
    let mut redo_stack: Vec<(&'static str, bool)> = vec![];
    let mut prev_state: Option<(BTreeMap<Pos, String>, BTreeMap<Pos, String>)> = None;
    for (i, op) in case.ops.iter().enumerate() {
        if avoid.paste_onto_spill {
            if let Op::CopyPaste { src, ts, trow, tcol, .. } = op {
                // (the cells of the sheet the paste goes to)
                let ws = &um.get_model().workbook.worksheets[crate::engine::ops::res_sheet(&um, *ts) as usize];
                let onto = (*trow..*trow + src.h).any(|r| (*tcol..*tcol + src.w).any(|c| matches!(ws.cell(r, c), Some(Cell::SpillCell { .. }))));
                if onto {
                    o.excluded += 1;
                    o = o.label("excluded:paste-onto-a-spill-cell");
                    continue;
                }
            }
        }
        if avoid.paste_spill {
            if let Op::CopyPaste { src, .. } = op {
                let ws = &um.get_model().workbook.worksheets[0];
                let has_spill = (src.row..src.row + src.h).any(|r| (src.col..src.col + src.w).any(|c| matches!(ws.cell(r, c), Some(Cell::SpillCell { .. }))));
                if has_spill {
                    o.excluded += 1;
                    o = o.label("excluded:paste-of-a-spill-cell");
                    continue;
                }
            }
        }
        let hist_before = um.verif_history_len();
        // listed C01 finding: undo of a row/column deletion that removed cells some formula reads
        // leaves #REF! behind; the rest of the history would run on a state no sequence of edits
        // produces, so the history ends there
        let band_referenced = match op {
            Op::DeleteRows { row, n, .. } => nodes::any_formula_reads_rows(um.get_model(), 0, *row, *n),
            Op::DeleteCols { col, n, .. } => nodes::any_formula_reads_columns(um.get_model(), 0, *col, *n),
            // the same entry: range_clear_contents records the spill cells it clears as old
            // values; its undo puts them back whatever their anchor has become meanwhile
            Op::ClearContents(a) | Op::ClearAll(a) => {
                let ws = &um.get_model().workbook.worksheets[0];
                (a.row..a.row + a.h).any(|r| (a.col..a.col + a.w).any(|c| matches!(ws.cell(r, c), Some(Cell::SpillCell { .. }))))
            }
            _ => false,
        };
        if avoid.undo_delete && matches!(op, Op::Undo) && undo_stack.last().map(|x| x.1).unwrap_or(false) {
            o.excluded += 1;
            o = o.label("ended:undo-of-deletion-of-referenced-band");
            break;
        }
        let undone: &'static str = match op {
            Op::Undo => undo_stack.last().map(|x| x.0).unwrap_or("nothing"),
            Op::Redo => redo_stack.last().map(|x| x.0).unwrap_or("nothing"),
            _ => "",
        };
        let res = ops::apply(&mut um, op);
        let hist_after = um.verif_history_len();
        match op {
            Op::Undo if res.is_ok() && hist_after.0 + 1 == hist_before.0 => {
                if let Some(x) = undo_stack.pop() {
                    redo_stack.push(x);
                }
            }
            Op::Redo if res.is_ok() && hist_after.0 == hist_before.0 + 1 => {
                if let Some(x) = redo_stack.pop() {
                    undo_stack.push(x);
                }
            }
            _ if hist_after.0 == hist_before.0 + 1 => {
                undo_stack.push((op.kind(), band_referenced));
                redo_stack.clear();
            }
            _ => {}
        }
        match &res {
            Applied::Panic(p) => {
                return o.fail(format!("C31:{}:op={}", p.class(), op.kind()), format!("op #{i} {:?} panicked: {}", op, p.describe()));
            }
            Applied::Err(_) => {
                o = o.label(format!("op-rejected:{}", op.kind()));
                if matches!(op, Op::Undo | Op::Redo) && um.verif_history_len() != hist_before {
                    // a failed undo/redo that consumed a history entry: later undos would apply
                    // diffs to a state they were not recorded against (C01/C04's business)
                    o = o.label("ended:failed-undo-consumed-history");
                    break;
                }
            }
            _ => {
                o = o.label(format!("op:{}", op.kind()));
            }
        }
        if case.paused {
            let before = user_content(um.get_model());
            if let Err(p) = panics::catch(|| um.evaluate()) {
                return o.fail(format!("C31:{}:evaluate-after={}", p.class(), op.kind()), format!("evaluate() after op #{i} {:?} panicked: {}", op, p.describe()));
            }
            let m = um.get_model();
            for (p, t) in &before {
                let cell = m.workbook.worksheets[p.0 as usize].cell(p.1, p.2);
                let now = m.get_localized_cell_content(p.0, p.1, p.2).unwrap_or_default();
                if matches!(cell, Some(Cell::SpillCell { .. })) || &now != t {
                    return o.fail(
                        format!("C31:user-content-overwritten-by-evaluate:after={}", op.kind()),
                        format!("op #{i} {:?}: before evaluate() {} held `{t}`, after it holds `{now}`{}", op, kit::pos_name(*p), if matches!(cell, Some(Cell::SpillCell { .. })) { " (a spill cell)" } else { "" }),
                    );
                }
            }
        }
        if std::env::var("VERIF_TRACE").is_ok() {
            // development aid: dump the stored cells after every step
            let m = um.get_model();
            let mut v: Vec<String> = vec![];
            for (r, rd) in &m.workbook.worksheets[0].sheet_data {
                for (c, cell) in rd {
                    if !matches!(cell, Cell::EmptyCell { .. }) {
                        let f = m.get_cell_formula(0, *r, *c).ok().flatten().unwrap_or_default();
                        v.push(format!("  {} {} {:?}", kit::a1(*r, *c), f, cell));
                    }
                }
            }
            v.sort();
            eprintln!("after op #{i} {:?} -> {:?}\n{}", op, res, v.join("\n"));
        }
        // nothing stored changed (rejected op, undo with empty history, ...): nothing new to check
        let now_state = (kit::values(um.get_model()), kit::structures(um.get_model()));
        if Some(&now_state) == prev_state.as_ref() {
            o = o.label("step-without-change");
            continue;
        }
        prev_state = Some(now_state);
        let now_spills = spill_owners(um.get_model());
        // row/column operations delete every spill cell before they re-evaluate: nothing is left over
        let vanished: BTreeMap<Pos, Pos> = if op.is_structural() {
            BTreeMap::new()
        } else {
            prev_spills.iter().filter(|(p, owner)| now_spills.get(*p) != Some(*owner)).map(|(p, o)| (*p, *o)).collect()
        };
        prev_spills = now_spills;
        let verdict = match panics::catch(|| validate(um.get_model(), avoid, &vanished, &mut o.excluded)) {
            Ok(v) => v,
            Err(p) => return o.fail(format!("C31:harness-{}", p.class()), format!("validity predicate panicked after op #{i}: {}", p.describe())),
        };
        steps_checked += 1;
        for s in &verdict.skipped {
            o = o.label(*s);
        }
        if verdict.blocked > 0 {
            ever_blocked = true;
        }
        for (a, w, h) in &verdict.anchors {
            sizes.entry(*a).or_default().insert((*w, *h));
        }
        if let Some((kind, at, detail)) = verdict.failure {
            let m = um.get_model();
            let head = m.get_cell_formula(at.0, at.1, at.2).ok().flatten().map(|f| kit::formula_head(&f)).unwrap_or_else(|| "?".into());
            let t = kit::spill_triggers(m);
            let mut tags = vec![];
            if t.stale_spill_ref_cells.contains(&at) {
                tags.push("spill-ref-before-target");
            }
            if t.blocked_anchor_readers.contains(&at) {
                tags.push("reads-blocked-dynamic-array");
            }
            if t.stale_readers.contains(&at) {
                tags.push("demanded-anchor-reads-later-spill");
            }
            if tags.is_empty() && kind != "spill-cell-without-anchor" && kind != "stale-spill-cell-outside-anchor-block" {
                let g = kit::Graph::build_ext(m, true);
                if kit::needs_reorder_while_starved(m, &g, &kit::all_dynamic_anchors(m), at) {
                    tags.push("anchor-cycle-exhausts-restarts");
                }
            }
            if tags.is_empty() && kind != "spill-cell-without-anchor" && kind != "stale-spill-cell-outside-anchor-block" {
                let g = kit::Graph::build_ext(m, true);
                let r = kit::reference_result(m, at);
                if touches_vanished(m, &g, at, Some(&r), &vanished) {
                    tags.push("leftover-spill-of-previous-pass");
                }
            }
            let tag = if tags.is_empty() { String::new() } else { format!(":trigger={}", tags.join("+")) };
            let after = if undone.is_empty() { op.kind().to_string() } else { format!("{}({undone})", op.kind()) };
            let sig = if !tags.is_empty() {
                format!("C31:anchor-inconsistent-with-stored-inputs{tag}")
            } else if kind == "spill-cell-without-anchor" || kind == "stale-spill-cell-outside-anchor-block" {
                format!("C31:{kind}:after={after}")
            } else {
                format!("C31:{kind}:after={after}:{head}")
            };
            return o.fail(sig, format!("after op #{i} {:?} (paused={}): [{kind}] {detail}", op, case.paused));
        }
    }
    let resized = sizes.values().any(|s| s.len() >= 2);
    if resized {
        o = o.label("an-anchor-changed-size");
    }
    if ever_blocked {
        o = o.label("an-anchor-was-blocked");
    }
    o = o.label(if case.paused { "mode:paused" } else { "mode:auto-evaluate" });
    if resized && ever_blocked && steps_checked > 0 {
        o = o.nontrivial(serde_json::to_string(case).unwrap_or_default());
    }
    o
}

// ------------------------------------------------------------------------------------------
// generator
// ------------------------------------------------------------------------------------------

const ROWS: i32 = 8;
const COLS: i32 = 7;

fn pos() -> BoxedStrategy<(i32, i32)> {
    prop_oneof![
        40 => (1..=ROWS, 1..=COLS),
        1 => (Just(LAST_ROW), 1..=3i32),
        1 => (Just(LAST_ROW - 1), 1..=3i32),
        1 => (1..=3i32, Just(LAST_COLUMN)),
        1 => (1..=3i32, Just(LAST_COLUMN - 1)),
    ]
    .boxed()
}

fn rng(r: i32, c: i32, h: i32, w: i32) -> String {
    format!("{}:{}", kit::a1(r, c), kit::a1(r + h, c + w))
}

/// Favourite anchor positions: most dynamic formulas are typed here and most `X#` operands
/// point here, so that spill references usually find an anchor.
const HOMES: [(i32, i32); 6] = [(3, 1), (1, 4), (3, 4), (5, 2), (6, 5), (2, 6)];

fn home() -> impl Strategy<Value = (i32, i32)> {
    (0..HOMES.len()).prop_map(|i| HOMES[i])
}

fn anchor_pos() -> BoxedStrategy<(i32, i32)> {
    prop_oneof![3 => home().boxed(), 1 => pos()].boxed()
}

fn anchor_formula() -> BoxedStrategy<String> {
    let cellr = || (1..=ROWS, 1..=COLS).prop_map(|(r, c)| kit::a1(r, c));
    let target = || prop_oneof![6 => home().prop_map(|(r, c)| kit::a1(r, c)).boxed(), 1 => cellr().boxed()];
    // A1 and B1 are the favourite size inputs
    let size = || prop_oneof![3 => Just("A1".to_string()), 3 => Just("B1".to_string()), 2 => cellr(), 2 => (1..4i32).prop_map(|n| n.to_string())];
    prop_oneof![
        5 => (size(), size()).prop_map(|(a, b)| format!("=SEQUENCE({a},{b})")),
        2 => size().prop_map(|a| format!("=SEQUENCE({a})")),
        3 => (1..=ROWS, 1..=COLS, 0..3i32, 0..3i32).prop_filter("not 1x1", |(_, _, h, w)| h + w > 0).prop_map(|(r, c, h, w)| format!("={}", rng(r, c, h, w))),
        3 => (1..=ROWS, 1..=COLS, 0..4i32, 0..2i32).prop_map(|(r, c, h, w)| format!("={}*2", rng(r, c, h, w))),
        1 => Just("={1,2;3,4}".to_string()),
        3 => target().prop_map(|a| format!("={a}#")),
        2 => target().prop_map(|a| format!("={a}#+1")),
        2 => (1..=ROWS, 1..=COLS, 0..3i32, 0..3i32).prop_map(|(r, c, h, w)| format!("=TRANSPOSE({})", rng(r, c, h, w))),
    ]
    .boxed()
}

fn area() -> impl Strategy<Value = A> {
    (1..=ROWS, 1..=COLS, 1..4i32, 1..4i32).prop_map(|(row, col, w, h)| A { s: 0, row, col, w, h })
}

fn op_strategy() -> BoxedStrategy<Op> {
    let input = |t: BoxedStrategy<String>| (pos(), t).prop_map(|((row, col), text)| Op::Input { s: 0, row, col, text });
    let size_input = (prop_oneof![Just((1, 1)), Just((1, 2)), (1..=ROWS, 1..=COLS)], prop_oneof![8 => (1..5i32).prop_map(|n| n.to_string()), 1 => Just("0".to_string()), 1 => Just("x".to_string()), 1 => Just(String::new())])
        .prop_map(|((row, col), text)| Op::Input { s: 0, row, col, text });
    let blocker = prop_oneof![4 => (0..30i32).prop_map(|n| n.to_string()), 2 => Just("x".to_string()), 1 => Just("=1+1".to_string()), 1 => Just("TRUE".to_string())].boxed();
    prop_oneof![
        18 => size_input,
        22 => (anchor_pos(), anchor_formula()).prop_map(|((row, col), text)| Op::Input { s: 0, row, col, text }),
        14 => input(blocker),
        5 => input(Just(String::new()).boxed()),
        4 => area().prop_map(Op::ClearContents),
        1 => area().prop_map(Op::ClearAll),
        3 => (1..=ROWS, 1..3i32).prop_map(|(row, n)| Op::InsertRows { s: 0, row, n }),
        3 => (1..=COLS, 1..3i32).prop_map(|(col, n)| Op::InsertCols { s: 0, col, n }),
        3 => (1..=ROWS, 1..3i32).prop_map(|(row, n)| Op::DeleteRows { s: 0, row, n }),
        3 => (1..=COLS, 1..3i32).prop_map(|(col, n)| Op::DeleteCols { s: 0, col, n }),
        2 => (1..=ROWS, 1..3i32, -3..4i32).prop_map(|(row, n, delta)| Op::MoveRows { s: 0, row, n, delta }),
        2 => (1..=COLS, 1..3i32, -3..4i32).prop_map(|(col, n, delta)| Op::MoveCols { s: 0, col, n, delta }),
        // (one paste in four goes to the second sheet: what a cut leaves behind on this one is checked)
        6 => (area(), prop_oneof![3 => Just(0u8), 1 => Just(1u8)], 1..=ROWS, 1..=COLS, any::<bool>())
            .prop_map(|(src, ts, trow, tcol, cut)| Op::CopyPaste { src, ts, trow, tcol, cut }),
        7 => Just(Op::Undo),
        3 => Just(Op::Redo),
    ]
    .boxed()
}

pub fn case_strategy(max_len: usize) -> BoxedStrategy<Case> {
    (prop::collection::vec(op_strategy(), 6..=max_len), prop::bool::weighted(0.4))
        .prop_map(|(mut ops, paused)| {
            // a second sheet as paste target
            ops.insert(0, Op::NewSheet);
            Case { ops, paused }
        })
        .boxed()
}

pub fn avoid_of(ctx: &Ctx) -> Avoid {
    Avoid {
        spill_ref: ctx.avoid("c31-spill-ref-before-target"),
        raw_result: ctx.avoid("c31-reads-blocked-dynamic-array"),
        paste_spill: ctx.avoid("c31-paste-of-a-spill-cell"),
        paste_onto_spill: ctx.avoid("c31-paste-onto-a-spill-cell"),
        stale: ctx.avoid("c31-demanded-anchor-reads-later-spill"),
        leftover: ctx.avoid("c31-leftover-spill-of-previous-pass"),
        starved: ctx.avoid("c31-anchor-cycle-exhausts-restarts"),
        undo_delete: ctx.avoid("c31-undo-of-deletion-of-referenced-band"),
    }
}

pub fn run(ctx: &Ctx) {
    ctx.set_rule(
        "Histories of 6-16 (quick) / 6-30 (thorough) UserModel operations on one sheet, window A1:G8 plus cells \
         at the last rows/columns: size inputs (mostly A1/B1, values 1-4, also 0, text, empty), dynamic-array \
         formulas (SEQUENCE of referenced sizes, range copy, range*2, array literal, X#, X#+1, TRANSPOSE), \
         blockers (values/formulas, also typed into spill cells), clears, row/column insert/delete/move, \
         cut/copy-paste, undo/redo; 40% of the histories run with evaluation paused and an explicit evaluate() \
         after each op. The validity predicate is checked after every step. Non-trivial: during the history some \
         anchor had two different stored sizes and some anchor was blocked (#SPILL!); distinct by the op list.",
    );
    ctx.assume("locale/language en; one sheet; the reference result of an anchor is the engine's own evaluation of that formula on a fresh workbook holding only the stored values of the cells it reads");
    ctx.assume("anchors whose reference result cannot be computed (formula reads its own spill area, X# of a non-anchor or of an anchor in error) are only subject to the global spill-cell checks (labels skip:*)");
    ctx.assume("operations the engine rejects (Err) are skipped; their atomicity is C04's business");
    ctx.assume("anchors on a dependency cycle (static reads, spill cells depend on their anchor, would-be blocks) and anchors whose block shows #CIRC! while the stored inputs show none are not subject to the exactness check: whether #CIRC! is justified is C05's question");
    ctx.assume("the overwrite check compares the content of every non-empty non-spill cell immediately before and after evaluate() in the paused variant");
    let (cases, len) = match ctx.tier {
        Tier::Quick => (250000, 16),
        Tier::Thorough => (4000000, 30),
    };
    let avoid = avoid_of(ctx);
    ctx.campaign(
        "histories",
        cases,
        || case_strategy(len),
        move |c: &Case| check(c, avoid),
        |c: &Case| serde_json::to_value(c).unwrap_or(Value::Null),
    );
}

pub fn replay(_ctx: &Ctx, _campaign: &str, case: &Value) -> Result<Outcome, String> {
    let c: Case = serde_json::from_value(case.clone()).map_err(|e| e.to_string())?;
    Ok(check(&c, Avoid::none()))
}
