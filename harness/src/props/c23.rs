//! C23 — Function and error names round-trip in every language.
//!
//! Finite enumeration (claimed exhaustive): every `Function` (hook H1, `Function::into_iter()`) x
//! every supported language (discovered at run time by probing `get_language` with every
//! two-letter code), and every `Error` kind x (every language + the Display/xlsx form).
//!
//! Oracles (all round trips through the engine's own printers and readers):
//!  * `L.functions.lookup(f.to_localized_name(L)) == f`; localized names pairwise distinct per
//!    language; `NAME(args)` parses in `L` to a node of that function; the node printed by
//!    `to_localized_string` in `L` parses back to the same node; printed by `to_excel_string` it
//!    starts with `f.to_xlsx_string()` and parses back (English) to that function.
//!  * every error's localized name goes through `get_error_by_name`, the lexer/parser in `L` and
//!    "typed into a cell" back to the same error; localized names pairwise distinct; the Display
//!    form (what the xlsx exporter writes) goes through `get_error_by_english_name`,
//!    `is_english_error_string`, the English parser, and the real xlsx export -> import path
//!    (typed error cell and formula evaluating to that error) back to the same error.

use std::collections::{BTreeMap, HashMap};

use ironcalc::export::save_xlsx_to_writer;
use ironcalc::import::load_from_xlsx_bytes;
use ironcalc_base::expressions::parser::stringify::{to_excel_string, to_localized_string};
use ironcalc_base::expressions::parser::{Node, Parser};
use ironcalc_base::expressions::token::{
    get_error_by_english_name, get_error_by_name, is_english_error_string, Error,
};
use ironcalc_base::expressions::types::CellReferenceRC;
use ironcalc_base::language::{get_language, Language};
use ironcalc_base::locale::get_locale;
use ironcalc_base::types::{Cell, FormulaValue};
use ironcalc_base::{Function, Model};
use serde_json::{json, Value};

use crate::engine::{panics, Ctx, Outcome};

/// All error kinds. `error_index` is an exhaustive match: a new variant stops the build, and
/// `ALL_ERRORS[i]` is checked against `error_index` at start-up.
const ALL_ERRORS: [Error; 12] = [
    Error::REF,
    Error::NAME,
    Error::VALUE,
    Error::DIV,
    Error::NA,
    Error::NUM,
    Error::ERROR,
    Error::NIMPL,
    Error::SPILL,
    Error::CALC,
    Error::CIRC,
    Error::NULL,
];

fn error_index(e: &Error) -> usize {
    match e {
        Error::REF => 0,
        Error::NAME => 1,
        Error::VALUE => 2,
        Error::DIV => 3,
        Error::NA => 4,
        Error::NUM => 5,
        Error::ERROR => 6,
        Error::NIMPL => 7,
        Error::SPILL => 8,
        Error::CALC => 9,
        Error::CIRC => 10,
        Error::NULL => 11,
    }
}

fn error_tag(e: &Error) -> String {
    format!("{e:?}")
}

/// Supported languages, discovered by probing (a newly added language is picked up).
pub fn supported_languages() -> Vec<String> {
    let mut v = vec![];
    for a in b'a'..=b'z' {
        for b in b'a'..=b'z' {
            let id = format!("{}{}", a as char, b as char);
            if get_language(&id).is_ok() {
                v.push(id);
            }
        }
    }
    v
}

fn context() -> CellReferenceRC {
    CellReferenceRC { sheet: "Sheet1".to_string(), row: 1, column: 1 }
}

fn parser_for(language: &'static Language) -> Parser<'static> {
    let locale = get_locale("en").expect("locale en");
    Parser::new(vec!["Sheet1".to_string()], vec![], HashMap::new(), locale, language)
}

fn functions() -> Vec<Function> {
    Function::into_iter().collect()
}

#[derive(Clone, Debug)]
struct FnCase {
    lang: String,
    index: usize,
    /// Debug name of the variant (for readable replay files; checked against `index`)
    function: String,
}

fn fn_case_json(c: &FnCase) -> Value {
    json!({"lang": c.lang, "index": c.index, "function": c.function})
}

/// Which function does a parsed call node denote?
fn node_function(node: &Node) -> Result<Function, String> {
    match node {
        Node::FunctionKind { kind, .. } => Ok(kind.clone()),
        Node::LambdaDefKind { .. } => Ok(Function::Lambda),
        other => Err(format!("{other:?}")),
    }
}

/// Call text used to parse a function name: the grammar needs a well-formed call, the arity is
/// not checked by the parser except for LAMBDA (parameters, body).
fn call_text(name: &str, f: &Function) -> String {
    match f {
        Function::Lambda => format!("{name}(x,x)"),
        Function::Let => format!("{name}(x,1,x)"),
        _ => format!("{name}(1)"),
    }
}

fn check_function(c: &FnCase) -> Outcome {
    let o = Outcome::pass()
        .nontrivial(format!("{}:{}", c.lang, c.index))
        .label(format!("lang={}", c.lang));
    let all = functions();
    let Some(f) = all.get(c.index).cloned() else {
        return o.fail("C23:replay:bad-function-index", format!("{c:?}"));
    };
    if format!("{f:?}") != c.function {
        return o.fail(
            "C23:replay:function-index-name-mismatch",
            format!("index {} is {:?}, case says {}", c.index, f, c.function),
        );
    }
    let Ok(language) = get_language(&c.lang) else {
        return o.fail("C23:replay:unknown-language", c.lang.clone());
    };
    let sig = |leg: &str| format!("C23:function:{leg}:lang={}:fn={:?}", c.lang, f);
    let r = panics::catch(|| -> Result<(), (String, String)> {
        let name = f.to_localized_name(language);
        if name.is_empty() {
            return Err((sig("empty-name"), format!("{f:?} has an empty name in {}", c.lang)));
        }
        // 1. table lookup
        let back = language.functions.lookup(&name);
        if back.as_ref() != Some(&f) {
            if let Some(g) = &back {
                if g.to_localized_name(language).to_uppercase() == name.to_uppercase() {
                    // same root cause (and same signature) as the distinctness check
                    return Err((
                        format!("C23:function:duplicate-name:lang={}:name={}", c.lang, name.to_uppercase()),
                        format!("in {} the name {name:?} belongs to both {g:?} and {f:?}; lookup gives {g:?}", c.lang),
                    ));
                }
            }
            return Err((
                sig("lookup"),
                format!("lookup({name:?}) in {} gives {back:?}, expected {f:?}", c.lang),
            ));
        }
        // 2. the parser in that language
        let ctx = context();
        let mut parser = parser_for(language);
        let text = call_text(&name, &f);
        let node = parser.parse(&text, &ctx);
        match node_function(&node) {
            Ok(g) if g == f => {}
            other => {
                return Err((
                    sig("parse"),
                    format!("{text:?} parsed in {} gives {other:?}, expected a call of {f:?}", c.lang),
                ))
            }
        }
        // 3. display in that language and parse back
        let locale = get_locale("en").expect("locale en");
        let shown = to_localized_string(&node, &ctx, locale, language);
        if !shown.to_uppercase().starts_with(&format!("{}(", name.to_uppercase())) {
            return Err((
                sig("display"),
                format!("{text:?} displays in {} as {shown:?}, expected it to start with {name:?}(", c.lang),
            ));
        }
        let node2 = parser.parse(&shown, &ctx);
        if node2 != node {
            return Err((
                sig("display-parse"),
                format!("{text:?} displays in {} as {shown:?}, which parses to {node2:?} instead of {node:?}", c.lang),
            ));
        }
        // 4. xlsx export name and the English parser (what the importer uses)
        let xlsx_name = f.to_xlsx_string();
        let exported = to_excel_string(&node, &ctx);
        if !exported.starts_with(&format!("{xlsx_name}(")) {
            return Err((
                sig("xlsx-print"),
                format!("{text:?} exports as {exported:?}, expected it to start with {xlsx_name:?}("),
            ));
        }
        let english = get_language("en").expect("language en");
        let mut en_parser = parser_for(english);
        let node3 = en_parser.parse(&exported, &ctx);
        match node_function(&node3) {
            Ok(g) if g == f => {}
            other => {
                return Err((
                    sig("xlsx-parse"),
                    format!("exported text {exported:?} parses (en) to {other:?}, expected a call of {f:?}"),
                ))
            }
        }
        // the bare xlsx name as well (not only as produced from this node)
        let text4 = call_text(&xlsx_name, &f);
        let node4 = en_parser.parse(&text4, &ctx);
        match node_function(&node4) {
            Ok(g) if g == f => {}
            other => {
                return Err((
                    sig("xlsx-name-parse"),
                    format!("{text4:?} parses (en) to {other:?}, expected a call of {f:?}"),
                ))
            }
        }
        Ok(())
    });
    match r {
        Ok(Ok(())) => o,
        Ok(Err((s, d))) => o.fail(s, d),
        Err(p) => o.fail(format!("C23:function:{}", p.class()), format!("{c:?}: {}", p.describe())),
    }
}

/// Names pairwise distinct within one table ("lang" = a language id, or "xlsx").
fn check_distinct(table: &String) -> Outcome {
    let o = Outcome::pass().nontrivial(format!("distinct:{table}")).label(format!("lang={table}"));
    let r = panics::catch(|| -> Result<(), (String, String)> {
        let mut seen: BTreeMap<String, Vec<String>> = BTreeMap::new();
        for f in functions() {
            let name = if table == "xlsx" {
                f.to_xlsx_string()
            } else {
                f.to_localized_name(get_language(table).map_err(|e| ("C23:replay:unknown-language".to_string(), e))?)
            };
            seen.entry(name.to_uppercase()).or_default().push(format!("{f:?}"));
        }
        for (name, fs) in &seen {
            if fs.len() > 1 {
                return Err((
                    format!("C23:function:duplicate-name:lang={table}:name={name}"),
                    format!("in table {table} the name {name:?} is shared by {fs:?}"),
                ));
            }
        }
        let mut seen: BTreeMap<String, Vec<String>> = BTreeMap::new();
        for e in ALL_ERRORS.iter() {
            let name = if table == "xlsx" {
                e.to_string()
            } else {
                e.to_localized_error_string(get_language(table).map_err(|e| ("C23:replay:unknown-language".to_string(), e))?)
            };
            seen.entry(name).or_default().push(error_tag(e));
        }
        for (name, es) in &seen {
            if es.len() > 1 {
                return Err((
                    format!("C23:error:duplicate-name:lang={table}:name={name}"),
                    format!("in table {table} the error name {name:?} is shared by {es:?}"),
                ));
            }
        }
        Ok(())
    });
    match r {
        Ok(Ok(())) => o,
        Ok(Err((s, d))) => o.fail(s, d),
        Err(p) => o.fail(format!("C23:distinct:{}", p.class()), p.describe()),
    }
}

#[derive(Clone, Debug)]
struct ErrCase {
    /// language id, or "xlsx" for the Display form written to xlsx files
    lang: String,
    error: String,
}

fn err_case_json(c: &ErrCase) -> Value {
    json!({"lang": c.lang, "error": c.error})
}

fn error_by_tag(tag: &str) -> Option<Error> {
    ALL_ERRORS.iter().find(|e| error_tag(e) == tag).cloned()
}

fn error_cell(model: &Model, row: i32, column: i32) -> Result<Error, String> {
    let ws = model.workbook.worksheets.first().ok_or("no sheet")?;
    let cell = ws
        .sheet_data
        .get(&row)
        .and_then(|r| r.get(&column))
        .ok_or_else(|| format!("no cell at row {row}, column {column}"))?;
    match cell {
        Cell::ErrorCell { ei, .. } => Ok(ei.clone()),
        Cell::CellFormula { v: FormulaValue::Error { ei, .. }, .. } => Ok(ei.clone()),
        other => Err(format!("{other:?}")),
    }
}

fn check_error(c: &ErrCase) -> Outcome {
    let o = Outcome::pass()
        .nontrivial(format!("{}:{}", c.lang, c.error))
        .label(format!("lang={}", c.lang));
    let Some(e) = error_by_tag(&c.error) else {
        return o.fail("C23:replay:unknown-error", c.error.clone());
    };
    let sig = |leg: &str| format!("C23:error:{leg}:lang={}:error={}", c.lang, c.error);
    let ctx = context();
    let adjacent = std::cell::Cell::new(false);
    let r = panics::catch(|| -> Result<(), (String, String)> {
        if c.lang == "xlsx" {
            // all legs are run; the signature is the first failing leg, the detail lists them all
            let mut failed: Vec<(String, String)> = vec![];
            let name = e.to_string();
            let back = get_error_by_english_name(&name);
            if back.as_ref() != Some(&e) {
                failed.push((
                    sig("english-name"),
                    format!("{e:?} is written as {name:?}; get_error_by_english_name gives {back:?}"),
                ));
            }
            if !is_english_error_string(&name) {
                failed.push((
                    sig("is-english-error-string"),
                    format!("{e:?} is written as {name:?}, which is_english_error_string rejects"),
                ));
            }
            let english = get_language("en").expect("language en");
            let node = parser_for(english).parse(&name, &ctx);
            if node != Node::ErrorKind(e.clone()) {
                failed.push((
                    sig("english-parse"),
                    format!("{e:?} is written as {name:?}, which the English parser reads as {node:?}"),
                ));
            }
            if let Err((leg, d)) = xlsx_round_trip(&e) {
                failed.push((sig(&leg), d));
            }
            return match failed.first() {
                None => Ok(()),
                Some((s, _)) => Err((
                    s.clone(),
                    failed.iter().map(|(_, d)| d.as_str()).collect::<Vec<_>>().join("; "),
                )),
            };
        }
        let language = get_language(&c.lang).map_err(|m| ("C23:replay:unknown-language".to_string(), m))?;
        let name = e.to_localized_error_string(language);
        let back = get_error_by_name(&name, language);
        if back.as_ref() != Some(&e) {
            return Err((
                sig("by-name"),
                format!("{e:?} is {name:?} in {}; get_error_by_name gives {back:?}", c.lang),
            ));
        }
        let mut parser = parser_for(language);
        let node = parser.parse(&name, &ctx);
        if node != Node::ErrorKind(e.clone()) {
            return Err((
                sig("parse"),
                format!("{e:?} is {name:?} in {}; the parser in that language reads {node:?}", c.lang),
            ));
        }
        // inside a larger formula (the lexer matches error names by prefix)
        let node = parser.parse(&format!("{name}+1"), &ctx);
        let ok = matches!(&node, Node::OpSumKind { left, .. } if **left == Node::ErrorKind(e.clone()));
        if !ok {
            return Err((
                sig("parse-in-expression"),
                format!("{name}+1 in {} parses to {node:?}", c.lang),
            ));
        }
        // Adjacent observation, NOT part of this property's verdict (the statement speaks of the
        // localized *name* parsing back, which holds): an error literal inside a formula is
        // printed by `stringify` with the English Display form in every language; where the
        // language's own name differs, that language cannot read the printed formula back.
        // Counted under a label; it belongs to C10/C18.
        let literal = parser.parse(&name, &ctx);
        let locale = get_locale("en").expect("locale en");
        let shown = to_localized_string(&literal, &ctx, locale, language);
        if parser.parse(&shown, &ctx) != literal {
            adjacent.set(true);
        }
        // typed into a cell in that language
        let lang_id: &'static str = Box::leak(c.lang.clone().into_boxed_str());
        let mut model = Model::new_empty("c23", "en", "UTC", lang_id).map_err(|m| (sig("setup"), m))?;
        model.set_user_input(0, 1, 1, name.clone()).map_err(|m| (sig("typed"), m))?;
        model.set_user_input(0, 1, 2, format!("={name}")).map_err(|m| (sig("typed"), m))?;
        model.evaluate();
        match error_cell(&model, 1, 1) {
            Ok(g) if g == e => {}
            other => {
                return Err((
                    sig("typed"),
                    format!("typing {name:?} in {} stores {other:?}, expected the error {e:?}", c.lang),
                ))
            }
        }
        match error_cell(&model, 1, 2) {
            Ok(g) if g == e => {}
            other => {
                return Err((
                    sig("typed-formula"),
                    format!("formula ={name} in {} evaluates to {other:?}, expected the error {e:?}", c.lang),
                ))
            }
        }
        Ok(())
    });
    let o = if adjacent.get() {
        o.label("adjacent(C10/C18):error-literal-printed-in-English-not-readable-in-this-language")
    } else {
        o
    };
    match r {
        Ok(Ok(())) => o,
        Ok(Err((s, d))) => o.fail(s, d),
        Err(p) => o.fail(format!("C23:error:{}", p.class()), format!("{c:?}: {}", p.describe())),
    }
}

/// Real exporter -> real importer: a typed error cell (A1) and a formula evaluating to the
/// error (B1) must come back as the same error.
fn xlsx_round_trip(e: &Error) -> Result<(), (String, String)> {
    let name = e.to_localized_error_string(get_language("en").expect("language en"));
    let mut model = Model::new_empty("c23", "en", "UTC", "en").map_err(|m| ("xlsx-setup".to_string(), m))?;
    model.set_user_input(0, 1, 1, name.clone()).map_err(|m| ("xlsx-setup".to_string(), m))?;
    model.set_user_input(0, 1, 2, format!("={name}")).map_err(|m| ("xlsx-setup".to_string(), m))?;
    model.evaluate();
    for col in [1, 2] {
        match error_cell(&model, 1, col) {
            Ok(g) if &g == e => {}
            other => {
                return Err((
                    "xlsx-setup".to_string(),
                    format!("before export, column {col} holds {other:?}, expected {e:?}"),
                ))
            }
        }
    }
    let cursor = std::io::Cursor::new(Vec::new());
    let bytes = save_xlsx_to_writer(&model, cursor)
        .map_err(|x| ("xlsx-export".to_string(), format!("{x:?}")))?
        .into_inner();
    let workbook = load_from_xlsx_bytes(&bytes, "c23", "en", "UTC")
        .map_err(|x| ("xlsx-import".to_string(), format!("{x:?}")))?;
    let mut loaded = Model::from_workbook(workbook, "en").map_err(|m| ("xlsx-import".to_string(), m))?;
    match error_cell(&loaded, 1, 1) {
        Ok(g) if &g == e => {}
        other => {
            return Err((
                "xlsx-cell-value".to_string(),
                format!("error cell {e:?} (written as {:?}) is imported as {other:?}", e.to_string()),
            ))
        }
    }
    match error_cell(&loaded, 1, 2) {
        Ok(g) if &g == e => {}
        other => {
            return Err((
                "xlsx-formula-value".to_string(),
                format!("cached value of ={name} ({e:?}, written as {:?}) is imported as {other:?}", e.to_string()),
            ))
        }
    }
    let formula = loaded.get_cell_formula(0, 1, 2).map_err(|m| ("xlsx-formula".to_string(), m))?;
    if formula != Some(format!("={name}")) {
        return Err((
            "xlsx-formula".to_string(),
            format!("formula ={name} is imported as {formula:?}"),
        ));
    }
    loaded.evaluate();
    match error_cell(&loaded, 1, 2) {
        Ok(g) if &g == e => {}
        other => {
            return Err((
                "xlsx-formula-reevaluated".to_string(),
                format!("={name} re-evaluates after import to {other:?}, expected {e:?}"),
            ))
        }
    }
    Ok(())
}

pub fn run(ctx: &Ctx) {
    ctx.set_rule(
        "Exhaustive: every Function from Function::into_iter() x every language accepted by \
         get_language (probed over all two-letter ids), every Error kind x (every language + the \
         Display/xlsx form), and one distinctness check per name table. Every case is \
         non-trivial; distinct = (language, function) / (language, error) / table.",
    );
    ctx.assume("'every built-in function' is what Function::into_iter() yields (hook H1); a variant missing from that hand-written list is not seen");
    ctx.assume("function names are parsed in a well-formed call NAME(1) (LAMBDA(x,x), LET(x,1,x)); argument separators follow the 'en' locale in every language (language and locale are independent)");
    for (i, e) in ALL_ERRORS.iter().enumerate() {
        assert_eq!(error_index(e), i, "ALL_ERRORS out of order");
    }
    let languages = supported_languages();
    ctx.note(format!("languages found: {languages:?}"));
    let all = functions();
    ctx.note(format!("functions enumerated: {}", all.len()));
    if languages.is_empty() || all.is_empty() {
        ctx.note("generator health: no language or no function found");
        return;
    }
    let mut cases = vec![];
    for lang in &languages {
        for (index, f) in all.iter().enumerate() {
            cases.push(FnCase { lang: lang.clone(), index, function: format!("{f:?}") });
        }
    }
    ctx.enumerate("function-names", &cases, check_function, fn_case_json);
    let mut tables = languages.clone();
    tables.push("xlsx".to_string());
    ctx.enumerate("distinct-names", &tables, check_distinct, |t| json!({"table": t}));
    let mut ecases = vec![];
    for lang in &tables {
        for e in ALL_ERRORS.iter() {
            ecases.push(ErrCase { lang: lang.clone(), error: error_tag(e) });
        }
    }
    ctx.enumerate("error-names", &ecases, check_error, err_case_json);
    ctx.set_exhaustive(true);
}

pub fn replay(_ctx: &Ctx, campaign: &str, case: &Value) -> Result<Outcome, String> {
    match campaign {
        "function-names" => {
            let c = FnCase {
                lang: case["lang"].as_str().ok_or("lang")?.to_string(),
                index: case["index"].as_u64().ok_or("index")? as usize,
                function: case["function"].as_str().ok_or("function")?.to_string(),
            };
            Ok(check_function(&c))
        }
        "distinct-names" => Ok(check_distinct(&case["table"].as_str().ok_or("table")?.to_string())),
        "error-names" => {
            let c = ErrCase {
                lang: case["lang"].as_str().ok_or("lang")?.to_string(),
                error: case["error"].as_str().ok_or("error")?.to_string(),
            };
            Ok(check_error(&c))
        }
        _ => Err(format!("unknown campaign {campaign}")),
    }
}
