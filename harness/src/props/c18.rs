//! C18 — Re-entering a cell's displayed content reproduces the cell.
//!
//! For an input `s` typed into an empty cell (optionally after an earlier input into the same
//! cell, which is how a cell gets a number format or a quote prefix before the content under
//! test arrives): record (content = `get_localized_cell_content`, type = `get_cell_type`,
//! style = `get_style_for_cell`, value = `get_cell_value_by_index`), type the content back into
//! the same cell with `set_user_input`, record again; the four must be equal (numbers to 15
//! significant digits). Every language x locale pair.

use ironcalc_base::cell::CellValue;
use ironcalc_base::language::get_language;
use ironcalc_base::types::{CellType, Style};
use ironcalc_base::Model;
use proptest::prelude::*;
use serde::{Deserialize, Serialize};
use serde_json::Value;

use super::c19::{loc, new_model, Loc};
use crate::engine::config;
use crate::engine::snapshot::sig;
use crate::engine::{panics, Ctx, Outcome};

#[derive(Clone, Debug, Serialize, Deserialize, PartialEq)]
pub struct Case {
    pub language: String,
    pub locale: String,
    /// typed into the cell first (gives the cell a style); `None`: the cell is pristine
    #[serde(default)]
    pub prior: Option<String>,
    pub input: String,
    /// generator shape (label only)
    #[serde(default)]
    pub shape: String,
    /// true: the cell is made with `update_cell_with_text(input)` (a text cell by definition,
    /// quote-prefixed by the engine when it would be read as something else) instead of
    /// `set_user_input`
    #[serde(default)]
    pub text_api: bool,
}

#[derive(Clone, Debug, PartialEq)]
enum V {
    Empty,
    Text(String),
    Num(f64),
    Bool(bool),
}

#[derive(Clone, Debug)]
struct Rec {
    content: String,
    ctype: String,
    style: Style,
    value: V,
}

fn record(m: &Model) -> Result<Rec, String> {
    let content = m.get_localized_cell_content(0, 1, 1)?;
    let ctype = match m.get_cell_type(0, 1, 1)? {
        CellType::Number => "number",
        CellType::Text => "text",
        CellType::LogicalValue => "boolean",
        CellType::ErrorValue => "error",
        CellType::Array => "array",
        CellType::CompoundData => "compound",
    }
    .to_string();
    let style = m.get_style_for_cell(0, 1, 1)?;
    let value = match m.get_cell_value_by_index(0, 1, 1)? {
        CellValue::None => V::Empty,
        CellValue::String(s) => V::Text(s),
        CellValue::Number(n) => V::Num(n),
        CellValue::Boolean(b) => V::Bool(b),
    };
    Ok(Rec { content, ctype, style, value })
}

fn value_eq(a: &V, b: &V) -> bool {
    match (a, b) {
        (V::Num(x), V::Num(y)) => sig(*x, 15) == sig(*y, 15),
        _ => a == b,
    }
}

fn show_v(v: &V) -> String {
    match v {
        V::Empty => "empty".into(),
        V::Text(s) => format!("text {s:?}"),
        V::Num(n) => format!("number {n:?}"),
        V::Bool(b) => format!("boolean {b}"),
    }
}

/// class of a number format, for signatures
fn fmt_class(f: &str) -> &'static str {
    let l = f.to_lowercase();
    if l == "general" {
        "general"
    } else if l.contains("e+") || l.contains("e-") {
        "exponent"
    } else if l.contains('%') {
        "percent"
    } else if l.contains('$') || l.contains('€') || l.contains('£') {
        "currency"
    } else if l.contains('y') || l.contains('d') || l.contains("mm") || l.contains('h') {
        "date"
    } else if l.contains(',') {
        "grouped"
    } else {
        "other"
    }
}

/// kind of cell for signatures: what the user sees it as
fn kind(r: &Rec) -> String {
    if r.content.starts_with('=') && !r.style.quote_prefix {
        return "formula".into();
    }
    let base = match &r.value {
        V::Empty => "empty",
        V::Num(_) => "number",
        V::Bool(_) => "boolean",
        V::Text(_) => {
            if r.ctype == "error" {
                "error"
            } else {
                "text"
            }
        }
    };
    let mut s = base.to_string();
    if r.style.quote_prefix {
        s.push_str("+quote-prefix");
    }
    s
}

/// what a text looks like (root-cause hint for texts that change kind on re-entry)
fn text_looks(s: &str) -> &'static str {
    let t = s.trim();
    if t.starts_with('\'') {
        "leading-quote"
    } else if t.starts_with('=') || t.starts_with('+') || t.starts_with('-') {
        "formula-like"
    } else if t.starts_with('#') {
        "error-like"
    } else if t.chars().any(|c| c.is_ascii_digit()) {
        "number-like"
    } else {
        "word"
    }
}

/// `skip_non_finite`: a typed numeral beyond the f64 range is stored as `inf` (listed under C19,
/// switch `non-finite-typed-number`); such cells are counted as excluded instead of failing here.
pub fn check_opts(case: &Case, skip_non_finite: bool) -> Outcome {
    let mut o = Outcome::pass().label(format!("shape:{}", case.shape));
    let r = panics::catch(|| -> Result<Result<(Rec, Rec), (String, String)>, String> {
        let mut m = new_model(&case.locale, &case.language)?;
        if let Some(p) = &case.prior {
            if m.set_user_input(0, 1, 1, p.clone()).is_err() {
                return Ok(Err(("skip".into(), "prior input rejected".into())));
            }
        }
        let typed = if case.text_api {
            m.update_cell_with_text(0, 1, 1, &case.input)
        } else {
            m.set_user_input(0, 1, 1, case.input.clone())
        };
        if let Err(e) = typed {
            return Ok(Err(("skip".into(), format!("input rejected: {e}"))));
        }
        m.evaluate();
        let a = record(&m)?;
        if let Err(e) = m.set_user_input(0, 1, 1, a.content.clone()) {
            return Ok(Err((
                format!("C18:{}:re-entry-rejected", kind(&a)),
                format!("content {:?} is rejected when typed back: {e}", a.content),
            )));
        }
        m.evaluate();
        let b = record(&m)?;
        Ok(Ok((a, b)))
    });
    let (a, b) = match r {
        Ok(Ok(Ok(x))) => x,
        Ok(Ok(Err((sig, d)))) => {
            if sig == "skip" {
                return o.label("skipped:input-rejected");
            }
            return o.fail(sig, format!("{}: {d}", describe_case(case)));
        }
        Ok(Err(e)) => return o.fail("C18:setup", e),
        Err(p) => return o.fail(format!("C18:{}", p.class()), format!("{}: {}", describe_case(case), p.describe())),
    };
    if let V::Num(n) = &a.value {
        if !n.is_finite() {
            if skip_non_finite {
                o.excluded += 1;
                return o.label("excluded:non-finite-number-stored");
            }
            return o.fail(
                "C18:number:non-finite-value-stored",
                format!("{}: the cell holds the number {n:?}, displayed as {:?}", describe_case(case), a.content),
            );
        }
    }
    o = o.label(format!("cell:{}", kind(&a)));
    let plain_word = !a.content.is_empty() && a.content.chars().all(|c| c.is_ascii_alphabetic());
    if !plain_word && !a.content.is_empty() {
        o = o.nontrivial(format!("{}|{}|{:?}|{}", case.language, case.locale, case.prior, case.input));
    }
    let mut aspects: Vec<&str> = vec![];
    if a.content != b.content {
        aspects.push("content");
    }
    if a.ctype != b.ctype {
        aspects.push("type");
    }
    if a.style != b.style {
        aspects.push("style");
    }
    if !value_eq(&a.value, &b.value) {
        aspects.push("value");
    }
    if aspects.is_empty() {
        return o;
    }
    let ka = kind(&a);
    let kb = kind(&b);
    let mut sig_parts: Vec<String> = vec![];
    let fa = fmt_class(&a.style.num_fmt);
    let fb = fmt_class(&b.style.num_fmt);
    let mut lang_dependent = ka.starts_with("boolean") || ka.starts_with("error") || ka == "formula";
    if ka != kb {
        // the cell changes kind: the root cause is in how the displayed text is read back
        sig_parts.push(format!("{ka}->{kb}"));
        if ka.starts_with("text") && !kb.starts_with("number") {
            sig_parts.push(format!("looks={}", text_looks(&a.content)));
        }
    } else if ka.starts_with("number") {
        sig_parts.push(ka.clone());
        let exp_content = a.content.contains(['e', 'E']);
        if a.style.num_fmt != b.style.num_fmt {
            if exp_content && fb == "exponent" {
                sig_parts.push("content-in-exponent-notation:num_fmt-becomes-exponent".into());
            } else {
                sig_parts.push(format!("num_fmt:{fa}->{fb}"));
            }
        } else if a.style != b.style {
            sig_parts.push("style-other".into());
        }
        if aspects.contains(&"value") {
            let lf = a.style.num_fmt.to_lowercase();
            let two_digit_year = lf.contains("yy") && !lf.contains("yyyy");
            let how = match (&a.value, &b.value) {
                // a `yy` format shows the year without its century
                (V::Num(x), V::Num(y)) if two_digit_year && *y != x.floor() => "two-digit-year-format-drops-century",
                (V::Num(x), V::Num(y)) if x.fract() != 0.0 && *y == x.floor() => "fraction-dropped",
                _ => "value-changes",
            };
            sig_parts.push(format!("{how}:num_fmt={fa}"));
        } else if aspects.contains(&"content") && a.style == b.style {
            sig_parts.push(format!("content-only:num_fmt={fa}"));
        }
    } else if ka == "formula" && a.content.contains("#REF!") && !case.input.to_uppercase().contains("#REF!") {
        // the typed formula had a reference the engine cannot keep (row 0, ...): it is displayed
        // as the literal #REF! although it evaluates as a reference
        sig_parts.push("formula:unrepresentable-reference-displayed-as-#REF!".into());
        lang_dependent = false;
    } else if ka == "formula" && case.input.contains("''!") {
        sig_parts.push("formula:empty-sheet-name".into());
        lang_dependent = false;
    } else {
        sig_parts.push(ka.clone());
        if a.style.num_fmt != b.style.num_fmt {
            sig_parts.push(format!("num_fmt:{fa}->{fb}"));
        } else if a.style != b.style {
            sig_parts.push("style-other".into());
        }
        sig_parts.push(format!("aspects={}", aspects.join(",")));
    }
    if lang_dependent && case.language != "en" {
        sig_parts.push("language!=en".into());
    }
    if case.text_api {
        sig_parts.push("via=update_cell_with_text".into());
    }
    let signature = format!("C18:{}", sig_parts.join(":"));
    let detail = format!(
        "{}: cell shows content {:?} (type {}, {}, num_fmt {:?}, quote_prefix {}); typing that back gives content {:?} (type {}, {}, num_fmt {:?}, quote_prefix {}); differs in {}",
        describe_case(case),
        a.content,
        a.ctype,
        show_v(&a.value),
        a.style.num_fmt,
        a.style.quote_prefix,
        b.content,
        b.ctype,
        show_v(&b.value),
        b.style.num_fmt,
        b.style.quote_prefix,
        aspects.join(",")
    );
    o.fail(signature, detail)
}

fn describe_case(c: &Case) -> String {
    if c.text_api {
        return format!("language {} locale {}: update_cell_with_text({:?}){}", c.language, c.locale, c.input, c.prior.as_ref().map(|p| format!(" after typing {p:?}")).unwrap_or_default());
    }
    match &c.prior {
        Some(p) => format!("language {} locale {}: typed {:?} then {:?}", c.language, c.locale, p, c.input),
        None => format!("language {} locale {}: typed {:?}", c.language, c.locale, c.input),
    }
}

// ---------------------------------------------------------------------------------------------
// Input generator
// ---------------------------------------------------------------------------------------------

#[derive(Clone, Debug)]
struct Seeds {
    cfg: usize,
    shape: u8,
    a: u64,
    b: u64,
    quote: bool,
    text: String,
}

fn pick<'a, T>(v: &'a [T], seed: u64) -> &'a T {
    &v[(seed % v.len() as u64) as usize]
}

fn lcg(x: u64) -> u64 {
    x.wrapping_mul(6364136223846793005).wrapping_add(1442695040888963407)
}

fn digits(seed: u64, n: usize) -> String {
    let mut s = String::new();
    let mut x = seed | 1;
    for i in 0..n {
        x = lcg(x);
        let mut d = ((x >> 33) % 10) as u8;
        if i == 0 && d == 0 {
            d = 7;
        }
        s.push((b'0' + d) as char);
    }
    s
}

fn group3(d: &str, g: char) -> String {
    let n = d.len();
    let mut s = String::new();
    for (i, c) in d.chars().enumerate() {
        if i > 0 && (n - i) % 3 == 0 {
            s.push(g);
        }
        s.push(c);
    }
    s
}

struct Cfg {
    language: String,
    locale: String,
    l: Loc,
    bools: Vec<String>,
    errors: Vec<String>,
    en_errors: Vec<String>,
    sum: String,
    if_: String,
    list_sep: char,
}

fn cfg(language: &str, locale: &str) -> Cfg {
    let l = loc(locale).expect("locale");
    let lang = get_language(language).expect("language");
    let en = get_language("en").expect("language en");
    let errs = |e: &ironcalc_base::language::Errors| {
        vec![
            e.r#ref.clone(),
            e.name.clone(),
            e.value.clone(),
            e.div.clone(),
            e.na.clone(),
            e.num.clone(),
            e.nimpl.clone(),
            e.spill.clone(),
            e.calc.clone(),
            e.circ.clone(),
            e.error.clone(),
            e.null.clone(),
        ]
    };
    Cfg {
        language: language.to_string(),
        locale: locale.to_string(),
        bools: vec![lang.booleans.r#true.clone(), lang.booleans.r#false.clone()],
        errors: errs(&lang.errors),
        en_errors: errs(&en.errors),
        sum: lang.functions.sum.clone(),
        if_: lang.functions.r#if.clone(),
        // argument separator: `;` where the decimal separator is a comma
        list_sep: if l.decimal == ',' { ';' } else { ',' },
        l,
    }
}

fn vary_case(s: &str, how: u64) -> String {
    match how % 4 {
        0 => s.to_string(),
        1 => s.to_lowercase(),
        2 => s.to_uppercase(),
        _ => {
            let mut out = String::new();
            for (i, c) in s.chars().enumerate() {
                if i == 0 {
                    out.extend(c.to_uppercase());
                } else {
                    out.extend(c.to_lowercase());
                }
            }
            out
        }
    }
}

const SHAPES: u8 = 16;

/// (shape label, text)
fn render(c: &Cfg, s: &Seeds) -> (String, String) {
    let l = &c.l;
    let dec = l.decimal;
    let grp = l.group;
    let a = s.a;
    let b = s.b;
    let cur = pick(&l.currencies, b >> 8).clone();
    let (label, text): (&str, String) = match s.shape % SHAPES {
        0 => ("integer", format!("{}", (a % 2001) as i64 - 1000)),
        1 => {
            let sign = ["", "-", "+"][(b % 3) as usize];
            ("decimal", format!("{sign}{}{dec}{}", a % 1000, digits(b, 1 + (b % 4) as usize)))
        }
        2 => {
            // long digit strings: 15..20 significant digits
            let n = 15 + (a % 6) as usize;
            let d = digits(a, n);
            match b % 3 {
                0 => ("long-number", d),
                1 => ("long-number", format!("{}{dec}{}", &d[..n / 2], &d[n / 2..])),
                _ => ("long-number", format!("0{dec}{}", d)),
            }
        }
        3 => {
            let forms = [
                "1e5", "1.5E-7", "1e20", "1e21", "1E+15", "1e16", "123456789e8", "1e-5", "1e-6", "1e300", "1e-300", "1e308", "2.5e-10", "9.99e14",
                "1e15", "1.234567e22", "-4e25", "5e-324", "1e-9", "123456789012345678901234567890", "0.00000123", "0.0000000001",
            ];
            ("exponent-or-extreme", pick(&forms, a).replace('.', &dec.to_string()))
        }
        4 => {
            let forms = ["007", "0.50", "00.5", "-0", "-0.0", "+5", "0", "5.", ".5", "-.5", " 7 ", "7 ", " 7", "1 000", "0,5", "0.5", "1,5", "1.5"];
            ("number-odd-shape", pick(&forms, a).to_string())
        }
        5 => {
            let d = digits(a, 4 + (a % 6) as usize);
            match b % 4 {
                0 => ("grouped", group3(&d, grp)),
                1 => ("grouped", format!("{}{dec}{}", group3(&d, grp), digits(b, 2))),
                2 => ("grouped-wrong", format!("{}{grp}{}", &d[..2], &d[2..4])),
                _ => ("grouped-other-locale", format!("{}{}{}", group3(&d, if grp == ',' { '.' } else { ',' }), if dec == '.' { ',' } else { '.' }, digits(b, 2))),
            }
        }
        6 => {
            let n = a % 1000;
            match b % 6 {
                0 => ("percent", format!("{n}%")),
                1 => ("percent", format!("{n}{dec}{}%", digits(b, 1 + (b % 3) as usize))),
                2 => ("percent", format!("-{n}%")),
                3 => ("percent", format!("{n} %")),
                4 => ("percent", format!("{n}e2%")),
                _ => ("percent", format!("{}%", group3(&digits(a, 5), grp))),
            }
        }
        7 => {
            let n = a % 10000;
            match b % 8 {
                0 => ("currency", format!("{cur}{n}")),
                1 => ("currency", format!("{cur}{n}{dec}{}", digits(b, 2))),
                2 => ("currency", format!("-{cur}{n}")),
                3 => ("currency", format!("{n}{cur}")),
                4 => ("currency", format!("{n}{dec}{} {cur}", digits(b, 2))),
                5 => ("currency", format!("{cur}{}{dec}{}", group3(&digits(a, 6), grp), digits(b, 2))),
                6 => ("currency", format!("{cur}-{n}")),
                _ => ("currency", format!("-{n}{cur}")),
            }
        }
        8 => {
            let y = [2024u64, 1999, 1900, 2029, 2030, 1930, 9999, 1899, 2000][(a % 9) as usize];
            let m = 1 + (a >> 8) % 12;
            let d = 1 + (a >> 16) % 28;
            let sep = ['/', '-', '.'][((b >> 4) % 3) as usize];
            let mname = |short: bool| if short { l.months_short[(m - 1) as usize].clone() } else { l.months[(m - 1) as usize].clone() };
            let (first, second) = if l.day_first { (d, m) } else { (m, d) };
            match b % 9 {
                0 => ("date-iso", format!("{y:04}-{m:02}-{d:02}")),
                1 => ("date-iso", format!("{y}{sep}{m}{sep}{d}")),
                2 => ("date-local", format!("{first}{sep}{second}{sep}{y}")),
                3 => ("date-local", format!("{first:02}{sep}{second:02}{sep}{:02}", y % 100)),
                4 => ("date-month-name", if l.day_first { format!("{d}{sep}{}{sep}{y}", mname(true)) } else { format!("{}{sep}{d}{sep}{y}", mname(true)) }),
                5 => ("date-month-name", if l.day_first { format!("{d}{sep}{}{sep}{y}", mname(false)) } else { format!("{}{sep}{d}{sep}{y}", mname(false)) }),
                6 => ("date-other-order", format!("{second}{sep}{first}{sep}{y}")),
                7 => ("time-like", format!("{}:{:02}", a % 24, b % 60)),
                _ => ("date-time-like", format!("{y:04}-{m:02}-{d:02} {}:{:02}", a % 24, b % 60)),
            }
        }
        9 => {
            let mut names = c.bools.clone();
            names.extend(["TRUE".to_string(), "FALSE".to_string()]);
            let n = pick(&names, a).clone();
            let active = c.bools.contains(&n);
            let t = vary_case(&n, b);
            let t = match (b >> 4) % 8 {
                0 => format!(" {t}"),
                1 => format!("{t} "),
                _ => t,
            };
            (if active { "boolean-active-language" } else { "boolean-english" }, t)
        }
        10 => {
            let mut names = c.errors.clone();
            names.extend(c.en_errors.iter().cloned());
            let i = (a % names.len() as u64) as usize;
            let t = vary_case(&names[i], b);
            (if i < c.errors.len() { "error-active-language" } else { "error-english" }, t)
        }
        11 => {
            let forms = [
                "1,2,3", "1.2.3", "12abc", "abc12", "1e", "e5", "1e+", "--5", "+-5", "5-", "(5)", "$", "%", "-", "+", "=", "==", "'", "''", "#", "#N/A ", "#FOO!",
                "TRUE!", "TRUEFALSE", "T", "yes", "inf", "nan", "NaN", "infinity", "-inf", "1_000", "0x1F", "1/2", "1 1/2", "1-2", "1+1", "+1+1", "-1-1",
                "+A2", "-A2", "+abc", "-abc", "+", "@x", "#REF", "N/A", "1 2", "1. 5", "$ 5 $", "5%%", "1..5", "1,,5", ",5", "5,", "٣", "１２３", "1e5e5", "0x",
                "+5%", "-(5)", "+\"a\"", "-TRUE", "+TRUE",
            ];
            ("look-alike", pick(&forms, a).to_string())
        }
        12 => {
            let forms = [
                "https://example.com/x", "http://example.com/?q=1&r=2", "www.example.com", "mailto:a@example.com", "user@example.com", "ftp://example.com",
                "https://", "a@b", "HTTPS://EXAMPLE.COM", "see https://example.com",
            ];
            ("url-or-email", pick(&forms, a).to_string())
        }
        13 => {
            let forms = [
                "line1\nline2", "a\r\nb", "\n", "1\n2", "x\n", "\ta", "a\tb", "ñandú €", "日本語", "😀", "a\u{0301}", "\u{200b}1", "\u{a0}5", "5\u{a0}", "שלום", "ß", "İ", "ǆ", "\u{202f}5",
                "a\"b", "\"quoted\"", "a'b", "\\", "a,b;c", "  two  spaces  ", " ", "  ",
            ];
            ("multiline-or-unicode", pick(&forms, a).to_string())
        }
        14 => {
            let ls = c.list_sep;
            let forms: Vec<String> = vec![
                "=1+1".into(),
                "=B1+1".into(),
                "=B1*2".into(),
                format!("=1{dec}5+B1"),
                format!("={}(B1:B3)", c.sum),
                format!("={}(B1{ls}2{ls}3)", c.sum),
                format!("={}(B1>0{ls}\"a\"{ls}\"b\")", c.if_),
                "=SUM(B1:B3)".into(),
                "=B1&\"x\"".into(),
                "=\"a\"&\"b\"".into(),
                "=1/0".into(),
                "=-B1%".into(),
                "=B1=B2".into(),
                "=$B$1".into(),
                "=Sheet1!B1".into(),
                "=1+".into(),
                "=UNKNOWNFN(1)".into(),
                "+1+2".into(),
                "-B1".into(),
                "+B1*2".into(),
                "=2^3".into(),
                "=(1+2)*3".into(),
                "= 1 + 2".into(),
                "=b1".into(),
                format!("=0{dec}5"),
                "=1e3".into(),
                format!("={}", c.bools[0]),
                "=TRUE".into(),
                "=\"TRUE\"".into(),
                "=\"\"".into(),
                "=#N/A".into(),
                "=A1".into(),
            ];
            ("formula", pick(&forms, a).clone())
        }
        _ => {
            // formula syntax is C09's domain: random text never starts a formula (`=`, `+`, `-`);
            // formulas come from the curated list above (and quoted random text keeps them)
            let t = s.text.trim_start_matches(['=', '+', '-']);
            ("random-text", if t.is_empty() { "x".to_string() } else { t.to_string() })
        }
    };
    if s.quote {
        (format!("quoted:{label}"), format!("'{text}"))
    } else {
        (label.to_string(), text)
    }
}

fn seeds_strategy(ncfg: usize) -> impl Strategy<Value = Seeds> {
    (
        0..ncfg,
        // every shape once, the shapes with many sub-forms (dates, booleans, errors, look-alikes,
        // formulas) twice or three times
        prop::sample::select(
            (0..SHAPES).chain([8, 8, 9, 10, 11, 14]).collect::<Vec<u8>>(),
        ),
        any::<u64>(),
        any::<u64>(),
        prop::sample::select(vec![false, false, false, false, false, false, false, true]),
        // random text over an alphabet rich in characters the recognisers look at (no `:`: a random
        // `=T:T` is a full-column range whose evaluation takes tens of seconds - a cost guard)
        prop::collection::vec(prop::sample::select("'=+-#.,%$€ 0159eEaAtTrRuU!/@\"()\u{e9}\u{a0}".chars().collect::<Vec<char>>()), 1..8)
            .prop_map(|v| v.into_iter().collect::<String>()),
    )
        .prop_map(|(cfg, shape, a, b, quote, text)| Seeds { cfg, shape, a, b, quote, text })
}

const PRIORS: [&str; 12] = ["10%", "$5", "2024-03-01", "1/2/24", "1e3", "1,234", "1.234", "'x", "abc", "TRUE", "=1+1", "5€"];

fn case_strategy(with_prior: bool, text_api: bool) -> impl Strategy<Value = Case> {
    let cfgs: Vec<(String, String)> = config::configs();
    let n = cfgs.len();
    (seeds_strategy(n), 0..PRIORS.len()).prop_map(move |(mut s, p)| {
        if text_api && s.shape % SHAPES == 12 {
            // typing a URL auto-links (and restyles) the cell, the text API does not: whether it
            // should is not settled by the statement; URLs are left out of the text-cell campaign
            s.shape = 11;
        }
        let (language, locale) = &cfgs[s.cfg];
        let c = cfg(language, locale);
        let (shape, mut input) = render(&c, &s);
        if text_api {
            // same reason: `#@0.0` is auto-linked as an e-mail address when typed
            input = input.replace('@', "a");
        }
        Case {
            language: c.language.clone(),
            locale: c.locale.clone(),
            prior: if with_prior { Some(PRIORS[p].to_string()) } else { None },
            input,
            shape,
            text_api,
        }
    })
}

fn enc(c: &Case) -> Value {
    serde_json::to_value(c).unwrap_or(Value::Null)
}

pub fn run(ctx: &Ctx) {
    ctx.set_rule(
        "Inputs from 16 shape classes (integers, decimals, 15-20 digit numbers, exponents/extremes, odd number shapes, \
         grouped right/wrong/other-locale, percentages, currencies prefix/suffix/negative, dates iso/local/month-name/other \
         order, times, booleans and errors in the active language and in English in every letter case, look-alikes, \
         URLs/e-mails, multi-line/unicode, simple formulas localized for the pair, random text over a recogniser-relevant \
         alphabet), one in eight quote-prefixed, rendered for every language x locale pair; campaign 'after-prior-input' \
         types one of 12 format-setting inputs into the cell first. Non-trivial: the displayed content is non-empty and is \
         not a plain ASCII word; distinct by (language, locale, prior, input).",
    );
    ctx.assume("value equality: numbers to 15 significant digits, everything else exactly; style equality: the whole Style value");
    ctx.assume("cells are the ones produced by set_user_input (one input, or two inputs into the same cell) and, in campaign text-cells, text cells produced by update_cell_with_text; formulas are evaluated before values are read");
    ctx.assume("formulas are the curated simple ones (references, arithmetic, a few functions in the active language, parse errors); random text never starts with = + - because arbitrary formula syntax is C09's domain");
    ctx.assume("campaign text-cells leaves out URL/e-mail texts (typing them auto-links and restyles the cell; the text API does not)");
    ctx.assume("while the C19 finding `non-finite-stored` is listed (switch non-finite-typed-number), inputs that make the engine store inf are counted as excluded_by_construction (the displayed `inf` cannot round-trip; root cause listed under C19/C08)");
    ctx.assume("hyperlinks attached by auto-linking and row heights are not among the four compared aspects");
    let n = ctx.tier.pick(1u64, 20u64);
    let skip = ctx.avoid("non-finite-typed-number");
    let check = move |c: &Case| check_opts(c, skip);
    ctx.campaign("single-input", 300_000 * n, || case_strategy(false, false), check, enc);
    ctx.campaign("after-prior-input", 150_000 * n, || case_strategy(true, false), check, enc);
    // "strings stay strings even when they look like numbers, dates, booleans or errors": text cells
    // made through the text API, which decides itself whether a quote prefix is needed
    ctx.campaign("text-cells", 100_000 * n, || case_strategy(false, true), check, enc);
}

pub fn replay(ctx: &Ctx, _campaign: &str, case: &Value) -> Result<Outcome, String> {
    let c: Case = serde_json::from_value(case.clone()).map_err(|e| e.to_string())?;
    Ok(check_opts(&c, !ctx.strict && ctx.avoid("non-finite-typed-number")))
}
