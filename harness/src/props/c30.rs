//! C30 — Styles are stored and read back faithfully.
//!
//! A case carries small palettes of style components (fonts, fills, borders, alignments, number
//! formats) and a sequence of operations that assign styles built from those palettes to cells,
//! rows and columns of a 4x4 window (so different styles share components and hit the interning
//! pools in many orders), delete row/column styles, create named styles and apply them.
//!
//! Oracle R-attr for styles: three maps (cell, row, column -> last assigned `Style`) plus the
//! named styles. After every operation every cell/row/column of the window and every name is read
//! through the public getters and compared with `Style: PartialEq`:
//!   * `get_cell_style_or_none`, `get_row_style`, `get_column_style` return the last assignment;
//!   * `get_style_for_cell` follows the documented precedence cell -> row -> column -> default;
//!   * an assignment to one target changes no other target.

use std::collections::BTreeMap;

use ironcalc_base::types::{
    Alignment, Border, BorderItem, BorderStyle, Color, Fill, Font, FontScheme, HorizontalAlignment,
    NumFmt, Style, StyleIncludes, VerticalAlignment,
};
use ironcalc_base::Model;
use proptest::prelude::*;
use serde::{Deserialize, Serialize};
use serde_json::Value;

use crate::engine::{panics, Ctx, Outcome, Tier};

const WIN: i32 = 4;
const NAMES: [&str; 4] = ["alpha", "Alpha", "beta", "normal"];

/// A style as indices into the case palettes.
#[derive(Clone, Debug, Serialize, Deserialize, PartialEq)]
pub struct SRef {
    pub font: u8,
    pub fill: u8,
    pub border: u8,
    pub align: u8,
    pub fmt: u8,
    pub qp: bool,
}

#[derive(Clone, Debug, Serialize, Deserialize, PartialEq)]
pub enum Op {
    SetCell { r: i32, c: i32, s: SRef },
    SetRow { r: i32, s: SRef },
    SetCol { c: i32, s: SRef },
    DelRow { r: i32 },
    DelCol { c: i32 },
    CreateNamed { n: u8, s: SRef, inc: StyleIncludes },
    ApplyCell { r: i32, c: i32, n: u8 },
    ApplyRow { r: i32, n: u8 },
    ApplyCol { c: i32, n: u8 },
}

impl Op {
    fn kind(&self) -> &'static str {
        match self {
            Op::SetCell { .. } => "set-cell",
            Op::SetRow { .. } => "set-row",
            Op::SetCol { .. } => "set-col",
            Op::DelRow { .. } => "delete-row-style",
            Op::DelCol { .. } => "delete-col-style",
            Op::CreateNamed { .. } => "create-named",
            Op::ApplyCell { .. } => "apply-named-cell",
            Op::ApplyRow { .. } => "apply-named-row",
            Op::ApplyCol { .. } => "apply-named-col",
        }
    }
    fn sref(&self) -> Option<&SRef> {
        match self {
            Op::SetCell { s, .. } | Op::SetRow { s, .. } | Op::SetCol { s, .. } | Op::CreateNamed { s, .. } => Some(s),
            _ => None,
        }
    }
}

#[derive(Clone, Debug, Serialize, Deserialize, PartialEq)]
pub struct Case {
    pub fonts: Vec<Font>,
    pub fills: Vec<Fill>,
    pub borders: Vec<Border>,
    pub aligns: Vec<Option<Alignment>>,
    pub fmts: Vec<String>,
    /// `numFmt` records the workbook starts with (as an imported file has): (id, code)
    pub num_fmts: Vec<(i32, String)>,
    pub ops: Vec<Op>,
}

fn pick<T: Clone + Default>(v: &[T], i: u8) -> T {
    if v.is_empty() {
        T::default()
    } else {
        v[i as usize % v.len()].clone()
    }
}

impl Case {
    fn style(&self, s: &SRef) -> Style {
        let fmt = if self.fmts.is_empty() {
            "general".to_string()
        } else {
            self.fmts[s.fmt as usize % self.fmts.len()].clone()
        };
        Style {
            alignment: pick(&self.aligns, s.align),
            num_fmt: fmt,
            fill: pick(&self.fills, s.fill),
            font: if self.fonts.is_empty() { Font::default() } else { pick_font(&self.fonts, s.font) },
            border: pick(&self.borders, s.border),
            quote_prefix: s.qp,
        }
    }
}

fn pick_font(v: &[Font], i: u8) -> Font {
    v[i as usize % v.len()].clone()
}

/// Built-in format table as documented in ECMA-376 18.8.30 (ids the engine maps codes to).
/// Only used to *classify* a failure / steer away from a listed finding, never as expected value.
fn builtin_id(code: &str) -> Option<i32> {
    const T: &[(i32, &str)] = &[
        (0, "general"), (1, "0"), (2, "0.00"), (3, "#,##0"), (4, "#,##0.00"),
        (5, "$#,##0_);($#,##0)"), (6, "$#,##0_);[Red]($#,##0)"), (7, "$#,##0.00_);($#,##0.00)"),
        (8, "$#,##0.00_);[Red]($#,##0.00)"), (9, "0%"), (10, "0.00%"), (11, "0.00E+00"),
        (12, "# ?/?"), (13, "# ??/??"), (14, "mm-dd-yy"), (15, "d-mmm-yy"), (16, "d-mmm"),
        (17, "mmm-yy"), (18, "h:mm AM/PM"), (19, "h:mm:ss AM/PM"), (20, "h:mm"), (21, "h:mm:ss"),
        (22, "m/d/yy h:mm"), (37, "#,##0_);(#,##0)"), (38, "#,##0_);[Red](#,##0)"),
        (39, "#,##0.00_);(#,##0.00)"), (40, "#,##0.00_);[Red](#,##0.00)"), (45, "mm:ss"),
        (46, "[h]:mm:ss"), (47, "mmss.0"), (48, "##0.0E+0"), (49, "@"),
    ];
    T.iter().find(|(_, c)| *c == code).map(|(i, _)| *i)
}

#[derive(Default)]
struct Ref {
    cells: BTreeMap<(i32, i32), Style>,
    /// style and "shadows the column style for cells without own style"
    rows: BTreeMap<i32, (Style, bool)>,
    cols: BTreeMap<i32, Style>,
    named: BTreeMap<String, (Style, StyleIncludes)>,
}

impl Ref {
    /// Documented precedence: cell, then row, then column, then the default style.
    fn effective(&self, r: i32, c: i32) -> Style {
        if let Some(s) = self.cells.get(&(r, c)) {
            return s.clone();
        }
        if let Some((s, true)) = self.rows.get(&r) {
            return s.clone();
        }
        if let Some(s) = self.cols.get(&c) {
            return s.clone();
        }
        Style::default()
    }
}

fn components(a: &Style, b: &Style) -> String {
    let mut v = vec![];
    if a.num_fmt != b.num_fmt {
        v.push("num_fmt");
    }
    if a.font != b.font {
        v.push("font");
    }
    if a.fill != b.fill {
        v.push("fill");
    }
    if a.border != b.border {
        v.push("border");
    }
    if a.alignment != b.alignment {
        v.push("alignment");
    }
    if a.quote_prefix != b.quote_prefix {
        v.push("quote_prefix");
    }
    v.join("+")
}

fn diff_opt(expected: &Option<Style>, got: &Result<Option<Style>, String>) -> Option<String> {
    match (expected, got) {
        (_, Err(e)) => Some(format!("error({})", e.chars().take(30).collect::<String>())),
        (None, Ok(None)) => None,
        (Some(_), Ok(None)) => Some("missing".to_string()),
        (None, Ok(Some(_))) => Some("unexpected".to_string()),
        (Some(a), Ok(Some(b))) => {
            if a == b {
                None
            } else {
                Some(components(a, b))
            }
        }
    }
}

struct Mismatch {
    observer: &'static str,
    who: String,
    what: String,
    detail: String,
}

fn compare(model: &Model, reference: &Ref) -> Option<Mismatch> {
    let default = Style::default();
    for r in 1..=WIN {
        let exp = reference.rows.get(&r).map(|x| x.0.clone()).unwrap_or_else(|| default.clone());
        // Some(default) == None for rows: see assumptions
        let got = model.get_row_style(0, r).map(|s| Some(s.unwrap_or_else(|| default.clone())));
        if let Some(what) = diff_opt(&Some(exp.clone()), &got) {
            return Some(Mismatch {
                observer: "read-row",
                who: format!("row {r}"),
                what,
                detail: format!("get_row_style({r}): expected {exp:?}, got {got:?}"),
            });
        }
    }
    for c in 1..=WIN {
        let exp = reference.cols.get(&c).cloned();
        let got = model.get_column_style(0, c);
        if let Some(what) = diff_opt(&exp, &got) {
            return Some(Mismatch {
                observer: "read-col",
                who: format!("col {c}"),
                what,
                detail: format!("get_column_style({c}): expected {exp:?}, got {got:?}"),
            });
        }
    }
    for r in 1..=WIN {
        for c in 1..=WIN {
            let exp = reference.cells.get(&(r, c)).cloned();
            let got = model.get_cell_style_or_none(0, r, c);
            if let Some(what) = diff_opt(&exp, &got) {
                return Some(Mismatch {
                    observer: "read-cell",
                    who: format!("cell {r},{c}"),
                    what,
                    detail: format!("get_cell_style_or_none({r},{c}): expected {exp:?}, got {got:?}"),
                });
            }
            let exp = reference.effective(r, c);
            let got = model.get_style_for_cell(0, r, c).map(Some);
            if let Some(what) = diff_opt(&Some(exp.clone()), &got) {
                let src = if reference.cells.contains_key(&(r, c)) {
                    "own"
                } else if matches!(reference.rows.get(&r), Some((_, true))) {
                    "from-row"
                } else if reference.cols.contains_key(&c) {
                    "from-col"
                } else {
                    "default"
                };
                return Some(Mismatch {
                    observer: "read-effective",
                    who: format!("cell {r},{c}"),
                    what: format!("{src}:{what}"),
                    detail: format!("get_style_for_cell({r},{c}) [{src}]: expected {exp:?}, got {got:?}"),
                });
            }
        }
    }
    for name in NAMES {
        let exp = reference.named.get(name);
        let got = model.get_named_style(name);
        match (exp, &got) {
            (None, Err(_)) => {}
            (Some((s, _)), Ok(g)) if s == g => {}
            (Some((s, _)), Ok(g)) => {
                return Some(Mismatch {
                    observer: "read-named",
                    who: format!("name {name}"),
                    what: components(s, g),
                    detail: format!("get_named_style({name}): expected {s:?}, got {g:?}"),
                })
            }
            _ => {
                return Some(Mismatch {
                    observer: "read-named",
                    who: format!("name {name}"),
                    what: "presence".into(),
                    detail: format!("get_named_style({name}): expected {:?}, got {got:?}", exp.map(|x| &x.0)),
                })
            }
        }
        if let Some((_, inc)) = exp {
            let gi = model.get_named_style_includes(name);
            if gi.as_ref() != Ok(inc) {
                return Some(Mismatch {
                    observer: "read-named",
                    who: format!("name {name}"),
                    what: "includes".into(),
                    detail: format!("get_named_style_includes({name}): expected {inc:?}, got {gi:?}"),
                });
            }
        }
    }
    None
}

fn in_window(case: &Case) -> bool {
    case.ops.iter().all(|op| {
        let ok = |x: &i32| (1..=WIN).contains(x);
        match op {
            Op::SetCell { r, c, .. } | Op::ApplyCell { r, c, .. } => ok(r) && ok(c),
            Op::SetRow { r, .. } | Op::DelRow { r } | Op::ApplyRow { r, .. } => ok(r),
            Op::SetCol { c, .. } | Op::DelCol { c } | Op::ApplyCol { c, .. } => ok(c),
            Op::CreateNamed { .. } => true,
        }
    })
}

pub fn check_with(case: &Case, avoid_override: bool) -> Outcome {
    let mut o = Outcome::pass();
    if !in_window(case) {
        return o.label("invalid-case:target outside the window");
    }
    for st in case.fonts.iter().map(|f| &f.color).chain(case.fills.iter().map(|f| &f.color)) {
        if let Color::Theme(_, t) = st {
            if !t.is_finite() {
                return o.label("invalid-case:non-finite tint");
            }
        }
    }
    let mut model = match Model::new_empty("model", "en", "UTC", "en") {
        Ok(m) => m,
        Err(e) => return o.fail("C30:setup", e),
    };
    for (id, code) in &case.num_fmts {
        model.workbook.styles.num_fmts.push(NumFmt { num_fmt_id: *id, format_code: code.clone() });
    }
    if !case.num_fmts.is_empty() {
        o = o.label("start:workbook-with-numfmt-records");
    }
    let mut reference = Ref::default();
    reference.named.insert("normal".to_string(), (Style::default(), StyleIncludes::default()));
    if let Some(m) = compare(&model, &reference) {
        return o.fail(format!("C30:initial:{}:{}", m.observer, m.what), m.detail);
    }
    let mut assigned: Vec<Style> = vec![];
    for (k, op) in case.ops.iter().enumerate() {
        // classify: does this op assign a built-in format code whose id the workbook redefines?
        let style = op.sref().map(|s| case.style(s));
        let hits_override = match &style {
            Some(s) => match builtin_id(&s.num_fmt) {
                Some(id) => case.num_fmts.iter().any(|(i, c)| *i == id && c != &s.num_fmt),
                None => false,
            },
            None => false,
        };
        if hits_override && avoid_override {
            o.excluded += 1;
            o = o.label(format!("excluded:{}:builtin-id-redefined", op.kind()));
            continue;
        }
        let res = panics::catch(|| match op {
            Op::SetCell { r, c, .. } => model.set_cell_style(0, *r, *c, style.as_ref().unwrap()),
            Op::SetRow { r, .. } => model.set_row_style(0, *r, style.as_ref().unwrap()),
            Op::SetCol { c, .. } => model.set_column_style(0, *c, style.as_ref().unwrap()),
            Op::DelRow { r } => model.delete_row_style(0, *r),
            Op::DelCol { c } => model.delete_column_style(0, *c),
            Op::CreateNamed { n, inc, .. } => {
                model.create_named_style(NAMES[*n as usize % NAMES.len()], style.as_ref().unwrap(), *inc)
            }
            Op::ApplyCell { r, c, n } => model.set_cell_style_by_name(0, *r, *c, NAMES[*n as usize % NAMES.len()]),
            Op::ApplyRow { r, n } => model.set_sheet_row_style(0, *r, NAMES[*n as usize % NAMES.len()]),
            Op::ApplyCol { c, n } => model.set_sheet_column_style(0, *c, NAMES[*n as usize % NAMES.len()]),
        });
        let res = match res {
            Ok(r) => r,
            Err(p) => {
                return o.fail(
                    format!("C30:{}:{}", op.kind(), p.class()),
                    format!("op #{k} {op:?} panicked: {}", p.describe()),
                )
            }
        };
        // reference
        let mut expect_err = false;
        match op {
            Op::SetCell { r, c, .. } => {
                reference.cells.insert((*r, *c), style.clone().unwrap());
            }
            Op::SetRow { r, .. } => {
                let s = style.clone().unwrap();
                // a row given the default style is stored as "no row format" and therefore does
                // not shadow a column style (see assumptions)
                let shadow = s != Style::default();
                reference.rows.insert(*r, (s, shadow));
            }
            Op::SetCol { c, .. } => {
                reference.cols.insert(*c, style.clone().unwrap());
            }
            Op::DelRow { r } => {
                reference.rows.remove(r);
            }
            Op::DelCol { c } => {
                reference.cols.remove(c);
            }
            Op::CreateNamed { n, inc, .. } => {
                let name = NAMES[*n as usize % NAMES.len()];
                if reference.named.contains_key(name) {
                    expect_err = true;
                } else {
                    let mut s = style.clone().unwrap();
                    s.quote_prefix = false; // documented: ignored for named styles
                    reference.named.insert(name.to_string(), (s, *inc));
                }
            }
            Op::ApplyCell { r, c, n } => {
                let name = NAMES[*n as usize % NAMES.len()];
                match reference.named.get(name).cloned() {
                    None => expect_err = true,
                    Some((ns, inc)) => {
                        let cur = reference.effective(*r, *c);
                        // documented: only the included categories are stamped, the rest of the
                        // cell's formatting is kept; the quote prefix is always kept
                        let new = Style {
                            num_fmt: if inc.number_format { ns.num_fmt.clone() } else { cur.num_fmt.clone() },
                            font: if inc.font { ns.font.clone() } else { cur.font.clone() },
                            fill: if inc.fill { ns.fill.clone() } else { cur.fill.clone() },
                            border: if inc.border { ns.border.clone() } else { cur.border.clone() },
                            alignment: if inc.alignment { ns.alignment.clone() } else { cur.alignment.clone() },
                            quote_prefix: cur.quote_prefix,
                        };
                        let partial = !(inc.number_format && inc.font && inc.fill && inc.border && inc.alignment);
                        let base = if reference.cells.contains_key(&(*r, *c)) {
                            "own"
                        } else if cur != Style::default() {
                            "inherited"
                        } else {
                            "default"
                        };
                        o = o.label(format!(
                            "apply-named-cell:{}-includes:base-{base}",
                            if partial { "partial" } else { "full" }
                        ));
                        reference.cells.insert((*r, *c), new);
                    }
                }
            }
            Op::ApplyRow { r, n } => {
                let name = NAMES[*n as usize % NAMES.len()];
                match reference.named.get(name).cloned() {
                    None => expect_err = true,
                    Some((ns, _)) => {
                        reference.rows.insert(*r, (ns, name != "normal"));
                    }
                }
            }
            Op::ApplyCol { c, n } => {
                let name = NAMES[*n as usize % NAMES.len()];
                match reference.named.get(name).cloned() {
                    None => expect_err = true,
                    Some((ns, _)) => {
                        reference.cols.insert(*c, ns);
                    }
                }
            }
        }
        match (&res, expect_err) {
            (Ok(()), false) | (Err(_), true) => {}
            (Ok(()), true) => {
                return o.fail(
                    format!("C30:{}:accepted-instead-of-error", op.kind()),
                    format!("op #{k} {op:?} returned Ok; an unknown / duplicate style name must be refused"),
                )
            }
            (Err(e), false) => {
                return o.fail(
                    format!("C30:{}:returns-error", op.kind()),
                    format!("op #{k} {op:?} returned Err({e})"),
                )
            }
        }
        o = o.label(format!("op:{}{}", op.kind(), if expect_err { ":refused" } else { "" }));
        if hits_override {
            o = o.label("op:assigns-builtin-code-with-redefined-id");
        }
        if let (Some(s), false) = (&style, expect_err) {
            assigned.push(s.clone());
        }
        if let Some(m) = compare(&model, &reference) {
            // target of the op or another one?
            let target = match op {
                Op::SetCell { r, c, .. } | Op::ApplyCell { r, c, .. } => format!("cell {r},{c}"),
                Op::SetRow { r, .. } | Op::DelRow { r } | Op::ApplyRow { r, .. } => format!("row {r}"),
                Op::SetCol { c, .. } | Op::DelCol { c } | Op::ApplyCol { c, .. } => format!("col {c}"),
                Op::CreateNamed { n, .. } => format!("name {}", NAMES[*n as usize % NAMES.len()]),
            };
            let who = if m.who == target { "target" } else { "other" };
            let what = m.what.clone();
            if hits_override && who == "target" && (what == "num_fmt" || what.ends_with(":num_fmt")) {
                // one root cause whatever the target kind: the code was mapped to a built-in id
                // that this workbook's numFmt records give another meaning
                return o.fail(
                    "C30:assign-builtin-format-code:builtin-id-redefined-by-workbook:num_fmt",
                    format!(
                        "after op #{k} {op:?} (assigned style {style:?}) in a workbook with numFmt records {:?}, {}: {}",
                        case.num_fmts, m.who, m.detail
                    ),
                );
            }
            return o.fail(
                format!("C30:{}:{}:{}:{}", op.kind(), m.observer, who, what),
                format!("after op #{k} {op:?} (assigned style {style:?}), {} ({who}): {}", m.who, m.detail),
            );
        }
    }
    // non-trivial: two different assigned styles share at least one component
    let mut nt = false;
    'outer: for i in 0..assigned.len() {
        for j in i + 1..assigned.len() {
            let (a, b) = (&assigned[i], &assigned[j]);
            if a != b
                && (a.font == b.font
                    || a.fill == b.fill
                    || a.border == b.border
                    || a.alignment == b.alignment
                    || a.num_fmt == b.num_fmt)
            {
                nt = true;
                break 'outer;
            }
        }
    }
    if nt {
        o = o.nontrivial(serde_json::to_string(case).unwrap_or_default());
    }
    o
}

// ---------------------------------------------------------------- generators

const TINTS: &[f64] = &[
    0.0,
    0.5,
    -0.25,
    0.3,
    0.30000000000000004,
    0.39997558519241921,
    0.7999816888943144,
    -0.499984740745262,
    -0.249977111117893,
    1.0,
    -1.0,
    1e-300,
];

fn color_strategy() -> impl Strategy<Value = Color> {
    prop_oneof![
        2 => Just(Color::None),
        3 => prop::sample::select(vec!["#000000", "#FF0000", "#ff0000", "#FF0001", "#FFFFFF", "#123ABC"])
            .prop_map(|s| Color::Rgb(s.to_string())),
        3 => (0i32..=11, prop::sample::select(TINTS.to_vec())).prop_map(|(i, t)| Color::Theme(i, t)),
    ]
}

fn font_strategy() -> impl Strategy<Value = Font> {
    (
        (prop::bool::weighted(0.2), prop::bool::weighted(0.2), prop::bool::weighted(0.3), prop::bool::weighted(0.2)),
        prop_oneof![3 => Just(12i32), 1 => 6i32..=20],
        color_strategy(),
        prop::sample::select(vec!["Inter", "inter", "Arial", "Calibri", ""]),
        prop_oneof![3 => Just(2i32), 1 => 0i32..=5],
        prop_oneof![3 => Just(FontScheme::Minor), 1 => Just(FontScheme::Major), 1 => Just(FontScheme::None)],
    )
        .prop_map(|((strike, u, b, i), sz, color, name, family, scheme)| Font {
            strike,
            u,
            b,
            i,
            sz,
            color,
            name: name.to_string(),
            family,
            scheme,
        })
}

fn border_item() -> impl Strategy<Value = Option<BorderItem>> {
    let style = prop::sample::select(vec![
        BorderStyle::Thin,
        BorderStyle::Medium,
        BorderStyle::Thick,
        BorderStyle::Double,
        BorderStyle::Dotted,
        BorderStyle::SlantDashDot,
        BorderStyle::MediumDashed,
        BorderStyle::MediumDashDotDot,
        BorderStyle::MediumDashDot,
    ]);
    prop_oneof![
        3 => Just(None),
        2 => (style, color_strategy()).prop_map(|(style, color)| Some(BorderItem { style, color })),
    ]
}

fn border_strategy() -> impl Strategy<Value = Border> {
    (
        prop::bool::weighted(0.15),
        prop::bool::weighted(0.15),
        border_item(),
        border_item(),
        border_item(),
        border_item(),
        border_item(),
    )
        .prop_map(|(diagonal_up, diagonal_down, left, right, top, bottom, diagonal)| Border {
            diagonal_up,
            diagonal_down,
            left,
            right,
            top,
            bottom,
            diagonal,
        })
}

fn align_strategy() -> impl Strategy<Value = Option<Alignment>> {
    let h = prop::sample::select(vec![
        HorizontalAlignment::General,
        HorizontalAlignment::Center,
        HorizontalAlignment::CenterContinuous,
        HorizontalAlignment::Distributed,
        HorizontalAlignment::Fill,
        HorizontalAlignment::Justify,
        HorizontalAlignment::Left,
        HorizontalAlignment::Right,
    ]);
    let v = prop::sample::select(vec![
        VerticalAlignment::Bottom,
        VerticalAlignment::Center,
        VerticalAlignment::Distributed,
        VerticalAlignment::Justify,
        VerticalAlignment::Top,
    ]);
    prop_oneof![
        2 => Just(None),
        1 => Just(Some(Alignment::default())),
        3 => (h, v, any::<bool>()).prop_map(|(horizontal, vertical, wrap_text)| Some(Alignment { horizontal, vertical, wrap_text })),
    ]
}

fn fmt_strategy() -> impl Strategy<Value = String> {
    prop::sample::select(vec![
        "general",
        "General",
        "GENERAL",
        "0",
        "0.00",
        "0.000",
        "#,##0.00",
        "0.00E+00",
        "0.00e+00",
        "0%",
        "mm-dd-yy",
        "MM-DD-YY",
        "dd/mm/yyyy",
        "h:mm AM/PM",
        "h:mm am/pm",
        "[h]:mm:ss",
        "@",
        "$#,##0.00_);[Red]($#,##0.00)",
        "$#,##0.00_);[red]($#,##0.00)",
        "#,##0.00_);(#,##0.00)",
        "_(* #,##0.00_);_(* \\(#,##0.00\\);_(* \"-\"??_);_(@_)",
        "0.0\"x\"",
        "",
        " general",
    ])
    .prop_map(|s| s.to_string())
}

fn sref_strategy() -> impl Strategy<Value = SRef> {
    (0u8..4, 0u8..4, 0u8..4, 0u8..4, 0u8..4, prop::bool::weighted(0.2))
        .prop_map(|(font, fill, border, align, fmt, qp)| SRef { font, fill, border, align, fmt, qp })
}

fn includes_strategy() -> impl Strategy<Value = StyleIncludes> {
    prop_oneof![
        2 => Just(StyleIncludes::default()),
        3 => (any::<bool>(), any::<bool>(), any::<bool>(), any::<bool>(), any::<bool>(), any::<bool>()).prop_map(
            |(number_format, font, fill, border, alignment, protection)| StyleIncludes {
                number_format,
                font,
                fill,
                border,
                alignment,
                protection,
            }
        ),
    ]
}

fn op_strategy() -> impl Strategy<Value = Op> {
    let ix = || 1i32..=WIN;
    prop_oneof![
        6 => (ix(), ix(), sref_strategy()).prop_map(|(r, c, s)| Op::SetCell { r, c, s }),
        3 => (ix(), sref_strategy()).prop_map(|(r, s)| Op::SetRow { r, s }),
        3 => (ix(), sref_strategy()).prop_map(|(c, s)| Op::SetCol { c, s }),
        1 => ix().prop_map(|r| Op::DelRow { r }),
        1 => ix().prop_map(|c| Op::DelCol { c }),
        3 => (0u8..4, sref_strategy(), includes_strategy()).prop_map(|(n, s, inc)| Op::CreateNamed { n, s, inc }),
        3 => (ix(), ix(), 0u8..4).prop_map(|(r, c, n)| Op::ApplyCell { r, c, n }),
        1 => (ix(), 0u8..4).prop_map(|(r, n)| Op::ApplyRow { r, n }),
        1 => (ix(), 0u8..4).prop_map(|(c, n)| Op::ApplyCol { c, n }),
    ]
}

/// `numFmt` records of the starting workbook: customs (id >= 164, as Excel writes), customs whose
/// code equals a built-in code, and - when `redefine` - records that redefine a built-in id (as
/// Excel writes for locale-dependent ids 5-8, 14, 37-44).
fn num_fmts_strategy(redefine: bool) -> BoxedStrategy<Vec<(i32, String)>> {
    let custom = prop::sample::select(vec![
        (164, "0.000"),
        (165, "dd/mm/yyyy"),
        (166, "0.00"),
        (50, "General"),
        (170, "0.0\"x\""),
    ]);
    let redefined = prop::sample::select(vec![
        (14, "dd/mm/yyyy"),
        (7, "#,##0.00\\ \"EUR\";\\-#,##0.00\\ \"EUR\""),
        (44, "_-* #,##0.00\\ \"EUR\"_-;\\-* #,##0.00\\ \"EUR\"_-;_-* \"-\"??\\ \"EUR\"_-;_-@_-"),
        (4, "#,##0.00"),
        (2, "0.000"),
    ]);
    let item: BoxedStrategy<(i32, &'static str)> = if redefine {
        prop_oneof![1 => custom, 2 => redefined].boxed()
    } else {
        custom.boxed()
    };
    prop::collection::vec(item, 1..=3)
        .prop_map(|v| {
            let mut out: Vec<(i32, String)> = vec![];
            for (id, code) in v {
                if !out.iter().any(|(i, _)| *i == id) {
                    out.push((id, code.to_string()));
                }
            }
            out
        })
        .boxed()
}

pub fn case_strategy(max_ops: usize, start: u8) -> impl Strategy<Value = Case> {
    let num_fmts: BoxedStrategy<Vec<(i32, String)>> = match start {
        0 => Just(vec![]).boxed(),
        1 => num_fmts_strategy(false),
        _ => num_fmts_strategy(true),
    };
    (
        prop::collection::vec(font_strategy(), 1..=3),
        prop::collection::vec((color_strategy()).prop_map(|color| Fill { color }), 1..=3),
        prop::collection::vec(border_strategy(), 1..=3),
        prop::collection::vec(align_strategy(), 1..=3),
        prop::collection::vec(fmt_strategy(), 1..=4),
        num_fmts,
        prop::collection::vec(op_strategy(), 1..=max_ops),
    )
        .prop_map(|(fonts, fills, borders, aligns, fmts, num_fmts, ops)| Case {
            fonts,
            fills,
            borders,
            aligns,
            fmts,
            num_fmts,
            ops,
        })
}

pub fn run(ctx: &Ctx) {
    ctx.set_rule(
        "A case = palettes of 1..3 fonts, fills, borders, alignments and 1..4 number formats drawn over \
         the whole attribute space (theme colours with f64 tints incl. neighbours 0.3/0.30000000000000004, \
         rgb colours differing in case, all 9 border styles on all 5 sides, all alignments incl. \
         Some(default) vs None, format codes equal to built-ins / differing only in case / custom / empty) \
         + 1..20 (quick) / 1..45 (thorough) ops on a 4x4 window: set cell/row/column style (styles are \
         index tuples into the palettes, so different styles share components), delete row/column style, \
         create named style (4 names incl. the existing 'normal', random includes), apply named style to \
         cell/row/column. Campaigns: empty workbook; workbook starting with custom numFmt records; \
         workbook whose numFmt records redefine built-in ids. After every op every cell (own and \
         effective style), row, column of the window and every name is read and compared. Non-trivial: \
         at least two different assigned styles share a component; distinct by case.",
    );
    ctx.assume("a row's style is compared up to None == Some(default style) (get_row_style answers Some(default) for any row with a descriptor)");
    ctx.assume("inheritance read through get_style_for_cell: a row whose last directly assigned style equals the default style does not shadow a column style (the engine stores 'default' as 'no row format', worksheet.rs set_row_style FIXME); not claimed either way by the statement");
    ctx.assume("named styles are created and applied, never updated/renamed/deleted here (update propagation is by design a change of other targets; covered by C01/C02 histories)");
    ctx.assume("applying a named style to a cell stamps only the included categories on top of the cell's effective style and keeps its quote prefix (doc comment of set_cell_style_by_name); applying to a row/column gives it the named style's own style");
    ctx.assume("tints are finite (documented range [-1,1]); NaN is not equal to itself under Style: PartialEq");
    // the JSON encoding of the tint pool must round-trip exactly, otherwise replays would differ
    for t in TINTS {
        let back: f64 = serde_json::from_str(&serde_json::to_string(t).unwrap()).unwrap();
        if back.to_bits() != t.to_bits() && !(back == 0.0 && *t == 0.0) {
            ctx.note(format!("tint {t:e} does not round-trip through JSON ({back:e})"));
        }
    }
    let avoid = ctx.avoid("c30-builtin-id-redefined");
    let (cases, len) = match ctx.tier {
        Tier::Quick => (100_000u64, 20usize),
        Tier::Thorough => (3_000_000, 45),
    };
    let enc = |c: &Case| serde_json::to_value(c).unwrap_or(Value::Null);
    ctx.campaign("styles-empty-workbook", cases / 2, || case_strategy(len, 0), |c| check_with(c, avoid), enc);
    ctx.campaign("styles-custom-numfmts", cases / 4, || case_strategy(len, 1), |c| check_with(c, avoid), enc);
    ctx.campaign("styles-redefined-builtin-ids", cases / 4, || case_strategy(len, 2), |c| check_with(c, avoid), enc);
}

pub fn replay(ctx: &Ctx, _campaign: &str, case: &Value) -> Result<Outcome, String> {
    let c: Case = serde_json::from_value(case.clone()).map_err(|e| e.to_string())?;
    let avoid = !ctx.strict && ctx.avoid("c30-builtin-id-redefined");
    Ok(check_with(&c, avoid))
}
