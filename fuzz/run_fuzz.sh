#!/bin/bash
# libFuzzer (ASan, nightly) campaigns for the byte-level properties; called by ../check at the end
# of the thorough tier.
#   fuzz/run_fuzz.sh <C11|C25> [runs-per-target]
# Campaigns are bounded by -runs (not by time) and seeded by VERIF_SEED, each on a fresh corpus
# directory under ../out/fuzz, so a run is a function of seed and tree.
# Panics whose signature is listed in ../known_findings.json (in_campaigns: true) are tolerated
# inside the targets; any other panic makes libFuzzer save the input.
# Exit: 0 nothing new / 1 `VIOLATION property=<id> replay=<file>` printed / 2 inconclusive
# (build failure, libFuzzer timeout / out-of-memory report, watchdog).
set -u
HERE="$(cd "$(dirname "$0")" && pwd)"
ROOT="$(dirname "$HERE")"
ID="${1:-}"
SEED="${VERIF_SEED:-1}"
export VERIF_ROOT="$ROOT"
export CARGO_NET_OFFLINE=true
TRIPLE="x86_64-unknown-linux-gnu"

case "$ID" in
  C11) TARGETS="c11_parse c11_format c11_input"; RUNS="${2:-${VERIF_FUZZ_RUNS:-1000000}}" ;;
  C25) TARGETS="c25_struct c25_parts c25_raw"; RUNS="${2:-${VERIF_FUZZ_RUNS:-100000}}" ;;
  *) echo "usage: run_fuzz.sh <C11|C25> [runs-per-target]"; exit 2 ;;
esac

mkdir -p "$ROOT/out/fuzz"
cd "$HERE" || exit 2
# same lock file as the harness (offline resolution)
[ -f Cargo.lock ] || cp "$ROOT/harness/Cargo.lock" Cargo.lock
# The engine's base/build.rs watches a file that does not exist (base/.git/HEAD), so cargo never
# considers the build fresh and recompiles the engine (minutes under ASan). Skip the build when no
# source file (engine crates, this crate, the harness files it includes) is newer than the binaries.
needs_build=1
STAMP="$HERE/target/$TRIPLE/release/.verif-built"
if [ -f "$STAMP" ]; then
  needs_build=0
  for T in $TARGETS; do [ -x "$HERE/target/$TRIPLE/release/$T" ] || needs_build=1; done
  ENGINE_DIRS=$(sed -n 's/.*path *= *"\([^"]*\)".*/\1/p' Cargo.toml | grep -v fuzz_targets | grep -v '^src/')
  for D in $ENGINE_DIRS; do
    if [ -n "$(find "$D/src" "$D/Cargo.toml" "$D/build.rs" -newer "$STAMP" -type f 2>/dev/null | head -n 1)" ]; then needs_build=1; fi
  done
  if [ -n "$(find "$HERE/src" "$HERE/fuzz_targets" "$HERE/Cargo.toml" "$HERE/Cargo.lock" "$ROOT/harness/src/props/c25_mutate.rs" \
        "$ROOT/harness/src/props/crashsig.rs" "$ROOT/harness/src/engine/nodes.rs" -newer "$STAMP" -type f 2>/dev/null | head -n 1)" ]; then
    needs_build=1
  fi
fi
if [ $needs_build -eq 1 ]; then
  touch "$ROOT/out/fuzz/.build-start"
  if ! cargo +nightly fuzz build --fuzz-dir . > "$ROOT/out/fuzz/build.log" 2>&1; then
    echo "INCONCLUSIVE: cargo fuzz build failed (see $ROOT/out/fuzz/build.log)"
    tail -n 20 "$ROOT/out/fuzz/build.log"
    exit 2
  fi
  # stamp with the time the build started: an edit made during the build triggers a rebuild
  touch -r "$ROOT/out/fuzz/.build-start" "$STAMP"
fi

status=0
for T in $TARGETS; do
  BIN="$HERE/target/$TRIPLE/release/$T"
  if [ ! -x "$BIN" ]; then
    echo "INCONCLUSIVE: fuzz target $T was not built"
    exit 2
  fi
  WORK="$ROOT/out/fuzz/$T"
  rm -rf "$WORK"
  mkdir -p "$WORK/corpus" "$WORK/artifacts"
  EXTRA=()
  N="$RUNS"
  case "$T" in
    c11_parse)  OPTS="-max_len=160 -dict=$HERE/dict/formula.dict" ;;
    c11_format) OPTS="-max_len=120 -dict=$HERE/dict/format.dict" ;;
    c11_input)  OPTS="-max_len=120 -dict=$HERE/dict/formula.dict"; N=$((RUNS / 3)) ;;
    c25_struct) OPTS="-max_len=122"; N=$((RUNS / 4)) ;;
    c25_parts)  OPTS="-max_len=24000 -dict=$HERE/dict/xml.dict" ;;
    c25_raw)    OPTS="-max_len=48000"; EXTRA=("$ROOT/replays/C25/seeds") ;;
  esac
  # shellcheck disable=SC2086
  mkdir -p "$HERE/seeds/$T"
  timeout -k 10 7200 "$BIN" "$WORK/corpus" "$HERE/seeds/$T" "${EXTRA[@]}" \
      -runs="$N" -seed="$SEED" -len_control=0 -timeout=120 -rss_limit_mb=4096 \
      -artifact_prefix="$WORK/artifacts/" -print_final_stats=1 $OPTS > "$WORK/log.txt" 2>&1
  rc=$?
  execs=$(grep -a "stat::number_of_executed_units" "$WORK/log.txt" | awk '{print $2}')
  cov=$(grep -a -E "^#[0-9]+.*cov: " "$WORK/log.txt" | tail -n 1 | sed -E 's/.*cov: ([0-9]+).*/\1/')
  units=$(ls "$WORK/corpus" | wc -l)
  echo "$ID fuzz target=$T seed=$SEED executed=${execs:-?} coverage_edges=${cov:-?} corpus_units=$units exit=$rc"

  shopt -s nullglob
  crashes=("$WORK"/artifacts/crash-*)
  others=("$WORK"/artifacts/timeout-* "$WORK"/artifacts/oom-* "$WORK"/artifacts/leak-*)
  shopt -u nullglob
  if [ ${#crashes[@]} -gt 0 ]; then
    mkdir -p "$ROOT/out/fuzz/replays"
    for A in "${crashes[@]}"; do
      OUT=$(VERIF_PRINT_CASE=1 "$BIN" "$A" 2>/dev/null)
      CASE=$(printf '%s\n' "$OUT" | grep -a '^CASE ' | head -n 1 | cut -c6-)
      SIG=$(printf '%s\n' "$OUT" | grep -a '^SIGNATURE ' | head -n 1 | cut -c11-)
      if [ -n "$CASE" ] && [ -n "$SIG" ]; then
        R="$ROOT/out/fuzz/replays/$T-$(basename "$A").json"
        python3 - "$ID" "$T" "$SIG" "$CASE" > "$R" <<'PY'
import json, sys
print(json.dumps({"property": sys.argv[1], "campaign": "fuzz:" + sys.argv[2], "signature": sys.argv[3],
                  "case": json.loads(sys.argv[4])}, indent=1, ensure_ascii=False))
PY
        echo "VIOLATION property=$ID replay=$R"
        echo "  signature=$SIG"
        echo "  libFuzzer artifact: $A"
      else
        # not a panic the target could classify (sanitizer report, abort inside a dependency)
        echo "VIOLATION property=$ID replay=$A"
        echo "  raw libFuzzer artifact for target $T; see $WORK/log.txt"
      fi
    done
    exit 1
  fi
  if [ ${#others[@]} -gt 0 ]; then
    echo "INCONCLUSIVE: libFuzzer reported ${others[*]} (timeout / out-of-memory are not violations by the rules of this check)"
    status=2
    continue
  fi
  if [ $rc -ne 0 ]; then
    echo "INCONCLUSIVE: fuzz target $T exited with $rc without an artifact (see $WORK/log.txt)"
    status=2
  fi
done
exit $status
