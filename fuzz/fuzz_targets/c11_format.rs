#![no_main]
//! C11: format_number(x, code, locale). Input: [8 bytes f64 bits] code...
use ironcalc_base::formatter::format::format_number;
use ironcalc_base::locale::get_locale;
use libfuzzer_sys::fuzz_target;
use serde_json::json;
use verif_fuzz::{guarded, locales, text_of};

fuzz_target!(|data: &[u8]| {
    if data.len() < 8 {
        return;
    }
    let mut b = [0u8; 8];
    b.copy_from_slice(&data[..8]);
    let bits = u64::from_le_bytes(b);
    let format = text_of(&data[8..]);
    guarded("C11", &|| json!({"target": "format", "bits": bits, "format": format}), || {
        for l in locales() {
            if let Ok(locale) = get_locale(l) {
                let f = format_number(f64::from_bits(bits), &format, locale);
                let _ = (f.text.len(), f.error);
            }
        }
    });
});
