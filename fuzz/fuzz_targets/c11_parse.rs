#![no_main]
//! C11: Parser::parse (A1 and R1C1), get_tokens_with_locale, formula_completion, cycle_reference.
//! Input: [config][cursor a][cursor b] text...
use std::collections::HashMap;

use ironcalc_base::expressions::lexer::util::{cycle_reference, get_tokens_with_locale};
use ironcalc_base::expressions::lexer::LexerMode;
use ironcalc_base::expressions::parser::Parser;
use ironcalc_base::expressions::types::CellReferenceRC;
use ironcalc_base::language::get_language;
use ironcalc_base::locale::get_locale;
use libfuzzer_sys::fuzz_target;
use serde_json::json;
use verif_fuzz::{config, guarded, text_of};

fuzz_target!(|data: &[u8]| {
    if data.len() < 3 {
        return;
    }
    let (language_id, locale_id) = config(data[0]);
    let text = text_of(&data[3..]);
    let n = text.chars().count();
    let a = data[1] as usize % (n + 2);
    let b = data[2] as usize % (n + 2);
    let (Ok(language), Ok(locale)) = (get_language(language_id), get_locale(locale_id)) else { return };
    // the harness' parse case runs every configuration: a superset of what ran here
    guarded("C11", &|| json!({"target": "parse", "text": text}), || {
        for mode in [LexerMode::A1, LexerMode::R1C1] {
            let mut p = Parser::new(
                vec!["Sheet1".to_string(), "Sheet 2".to_string(), "Ünï".to_string()],
                vec![("nm1".to_string(), None, "Sheet1!$A$1".to_string())],
                HashMap::new(),
                locale,
                language,
            );
            p.set_lexer_mode(mode);
            let cell = CellReferenceRC { sheet: "Sheet1".to_string(), row: 7, column: 3 };
            let _ = p.parse(&text, &cell);
        }
        let _ = get_tokens_with_locale(&text, locale, language);
    });
    guarded("C11", &|| json!({"target": "cursor", "language": language_id, "locale": locale_id, "text": text}), || {
        let mut p = Parser::new(vec!["Sheet1".to_string()], vec![], HashMap::new(), locale, language);
        let cell = CellReferenceRC { sheet: "Sheet1".to_string(), row: 3, column: 2 };
        let body = text.strip_prefix('=').unwrap_or(&text);
        let _ = p.parse_at_cursor(body, a, &cell);
        let _ = cycle_reference(&text, a, b, locale, language);
    });
});
