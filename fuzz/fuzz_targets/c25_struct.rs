#![no_main]
//! C25, structure-aware: input = [seed selector][n] then 40-byte mutation records, decoded into the
//! same (seed package, mutation list) cases the harness generates.
use std::sync::OnceLock;

use ironcalc::import::load_from_xlsx_bytes;
use ironcalc_base::Model;
use libfuzzer_sys::fuzz_target;
use serde_json::json;
use verif_fuzz::mutate::{self, PartInfo, Parts};
use verif_fuzz::{env, guarded};

struct Seed {
    name: String,
    parts: Parts,
    cat: Vec<PartInfo>,
    weighted: Vec<usize>,
}

fn seeds() -> &'static Vec<Seed> {
    static S: OnceLock<Vec<Seed>> = OnceLock::new();
    S.get_or_init(|| {
        let dir = env().root.join("replays").join("C25").join("seeds");
        let mut files: Vec<_> = std::fs::read_dir(&dir)
            .map(|rd| rd.filter_map(|e| e.ok().map(|e| e.path())).collect())
            .unwrap_or_default();
        files.retain(|p: &std::path::PathBuf| p.extension().map(|e| e == "xlsx").unwrap_or(false));
        files.sort();
        let mut out = vec![];
        for f in files {
            let Ok(bytes) = std::fs::read(&f) else { continue };
            let Some(parts) = mutate::unpack(&bytes) else { continue };
            let cat = mutate::catalogue(&parts);
            let weighted = mutate::weighted_parts(&cat);
            out.push(Seed { name: f.file_name().unwrap().to_string_lossy().to_string(), parts, cat, weighted });
        }
        if out.is_empty() {
            eprintln!("no seed packages under {}", dir.display());
            std::process::exit(3);
        }
        out
    })
}

fuzz_target!(|data: &[u8]| {
    if data.len() < 2 {
        return;
    }
    let seeds = seeds();
    let seed = &seeds[data[0] as usize % seeds.len()];
    let n = 1 + (data[1] as usize % 3);
    let mut rest = &data[2..];
    let mut muts = vec![];
    for _ in 0..n {
        match mutate::raw_from_bytes(&mut rest) {
            Some(raw) => muts.push(mutate::concretize(&seed.cat, &seed.weighted, &raw)),
            None => break,
        }
    }
    if muts.is_empty() {
        return;
    }
    let (bytes, _) = mutate::build(&seed.parts, &muts);
    guarded("C25", &|| json!({"seed": seed.name, "muts": muts}), || {
        if let Ok(wb) = load_from_xlsx_bytes(&bytes, "fuzzed", "en", "UTC") {
            let _ = Model::from_workbook(wb, "en");
        }
    });
});
