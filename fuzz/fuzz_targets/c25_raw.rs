#![no_main]
//! C25, raw bytes: the input is the file itself (zip-level parsing, central directory, names).
use ironcalc::import::load_from_xlsx_bytes;
use ironcalc_base::Model;
use libfuzzer_sys::fuzz_target;
use serde_json::json;
use verif_fuzz::{env, guarded};

fuzz_target!(|data: &[u8]| {
    guarded(
        "C25",
        &|| {
            let dir = env().root.join("out").join("fuzz").join("packages");
            let _ = std::fs::create_dir_all(&dir);
            let mut h = 0xcbf29ce484222325u64;
            for b in data {
                h = (h ^ *b as u64).wrapping_mul(0x100000001b3);
            }
            let rel = format!("out/fuzz/packages/c25_raw-{h:016x}.xlsx");
            let _ = std::fs::write(env().root.join(&rel), data);
            json!({"seed": format!("file:{rel}"), "muts": []})
        },
        || {
            if let Ok(wb) = load_from_xlsx_bytes(data, "fuzzed", "en", "UTC") {
                let _ = Model::from_workbook(wb, "en");
            }
        },
    );
});
