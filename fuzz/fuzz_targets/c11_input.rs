#![no_main]
//! C11: Model::set_user_input + evaluate + read back. Input: [config] text...
//! Evaluation cost guard as in the harness (props/c11.rs): formulas with size-like functions,
//! lambdas or ranges of more than 4096 cells are stored but not evaluated.
use ironcalc_base::expressions::parser::Node;
use ironcalc_base::{Function, Model};
use libfuzzer_sys::fuzz_target;
use serde_json::json;
use verif_fuzz::{config, guarded, nodes, text_of};

const SIZE_LIKE: [&str; 22] = [
    "Sequence", "Randarray", "Makearray", "Expand", "Munit", "Wrapcols", "Wraprows", "Fact", "Factdouble", "Combin",
    "Combina", "Permut", "Permutationa", "Besseli", "Besselj", "Besselk", "Bessely", "Seriessum", "Multinomial", "Base",
    "Roman", "Textjoin",
];

fn cheap(node: &Node, row: i32, column: i32) -> bool {
    let mut ok = true;
    nodes::walk(node, &mut |n| match n {
        Node::FunctionKind { kind, .. } => {
            let name = format!("{kind:?}");
            if SIZE_LIKE.iter().any(|s| *s == name) || matches!(kind, Function::Lambda) {
                ok = false;
            }
        }
        Node::LambdaDefKind { .. } | Node::LambdaCallKind { .. } => ok = false,
        // the range operator builds its range at run time (`A1 : XFD1048576`)
        Node::OpRangeKind { .. } => ok = false,
        _ => {}
    });
    if !ok {
        return false;
    }
    for leaf in nodes::ref_leaves(node, row, column) {
        let area = (leaf.row2 as i64 - leaf.row1 as i64 + 1) * (leaf.col2 as i64 - leaf.col1 as i64 + 1);
        if area > 4_096 {
            return false;
        }
    }
    true
}

fuzz_target!(|data: &[u8]| {
    if data.is_empty() {
        return;
    }
    let (language, locale) = config(data[0]);
    let text = text_of(&data[1..]);
    guarded("C11", &|| json!({"target": "input", "language": language, "locale": locale, "text": text}), || {
        let Ok(mut model) = Model::new_empty("model", locale, "UTC", language) else { return };
        for (r, c, v) in [(1, 1, "1"), (2, 1, "2.5"), (1, 2, "text"), (2, 2, "=1/0"), (3, 1, "=A1+A2")] {
            let _ = model.set_user_input(0, r, c, v.to_string());
        }
        let (row, column) = (3, 2);
        let _ = model.set_user_input(0, row, column, text.clone());
        let stored = model
            .workbook
            .worksheet(0)
            .ok()
            .and_then(|ws| ws.cell(row, column))
            .and_then(|c| c.get_formula())
            .and_then(|f| model.parsed_formulas.first().and_then(|v| v.get(f as usize)))
            .map(|(n, _)| n.clone());
        if stored.as_ref().map(|n| cheap(n, row, column)).unwrap_or(true) {
            model.evaluate();
            let _ = model.get_formatted_cell_value(0, row, column);
            let _ = model.get_localized_cell_content(0, row, column);
        }
    });
});
