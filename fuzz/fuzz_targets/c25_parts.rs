#![no_main]
//! C25, text level: the input is a plain-text container of package parts
//! (`--part:<name>\n<content>` records) that is zipped (with correct checksums) and imported, so
//! that libFuzzer's byte mutations and the XML dictionary act on the XML text itself.
use ironcalc::import::load_from_xlsx_bytes;
use ironcalc_base::Model;
use libfuzzer_sys::fuzz_target;
use serde_json::json;
use verif_fuzz::{env, guarded, mutate};

pub fn split(data: &[u8]) -> mutate::Parts {
    let marker = b"--part:";
    let mut parts = vec![];
    let mut i = 0;
    // records start at a marker at the beginning of a line
    let mut starts = vec![];
    while i + marker.len() <= data.len() {
        if &data[i..i + marker.len()] == marker && (i == 0 || data[i - 1] == b'\n') {
            starts.push(i);
        }
        i += 1;
    }
    for (k, &s) in starts.iter().enumerate() {
        let end = starts.get(k + 1).map(|e| e - 1).unwrap_or(data.len());
        let rec = &data[s + marker.len()..end.max(s + marker.len())];
        let nl = rec.iter().position(|b| *b == b'\n').unwrap_or(rec.len());
        let name = String::from_utf8_lossy(&rec[..nl]).trim().to_string();
        let content = if nl < rec.len() { rec[nl + 1..].to_vec() } else { vec![] };
        if !name.is_empty() && name.len() < 200 {
            parts.push((name, content));
        }
    }
    parts
}

fuzz_target!(|data: &[u8]| {
    let parts = split(data);
    if parts.is_empty() {
        return;
    }
    let bytes = mutate::pack(&parts, true);
    guarded(
        "C25",
        &|| {
            // raw bytes as a replay: the package is written next to the other run-time artefacts
            let dir = env().root.join("out").join("fuzz").join("packages");
            let _ = std::fs::create_dir_all(&dir);
            let mut h = 0xcbf29ce484222325u64;
            for b in &bytes {
                h = (h ^ *b as u64).wrapping_mul(0x100000001b3);
            }
            let rel = format!("out/fuzz/packages/c25_parts-{h:016x}.xlsx");
            let _ = std::fs::write(env().root.join(&rel), &bytes);
            json!({"seed": format!("file:{rel}"), "muts": []})
        },
        || {
            if let Ok(wb) = load_from_xlsx_bytes(&bytes, "fuzzed", "en", "UTC") {
                let _ = Model::from_workbook(wb, "en");
            }
        },
    );
});
