//! Shared machinery of the cargo-fuzz targets for C11 and C25.
//!
//! * the mutation engine, the crash signatures and the Node walker are the harness' own files,
//!   included by path (one definition of "the same root cause" for both layers);
//! * `guarded` runs one engine call under `catch_unwind`; a panic whose signature is listed in
//!   `$VERIF_ROOT/known_findings.json` (in_campaigns: true) is tolerated so that a campaign does
//!   not rediscover the same crash forever; any other panic aborts (libFuzzer records the input);
//! * `VERIF_STRICT=1` tolerates nothing; `VERIF_PRINT_CASE=1` prints the decoded case as the JSON
//!   `vcheck --replay` understands (`CASE <json>`) instead of aborting.

#[path = "../../harness/src/props/c25_mutate.rs"]
pub mod mutate;
#[path = "../../harness/src/props/crashsig.rs"]
pub mod crashsig;
#[path = "../../harness/src/engine/nodes.rs"]
pub mod nodes;

use std::panic::{catch_unwind, AssertUnwindSafe};
use std::path::PathBuf;
use std::sync::OnceLock;

pub struct Env {
    pub root: PathBuf,
    pub strict: bool,
    pub print_case: bool,
    pub allow: Vec<String>,
}

pub fn env() -> &'static Env {
    static E: OnceLock<Env> = OnceLock::new();
    E.get_or_init(|| {
        // libfuzzer-sys installs a hook that aborts on every panic: replace it
        crashsig::install_recording_hook();
        let root = std::env::var("VERIF_ROOT").map(PathBuf::from).unwrap_or_else(|_| {
            // <verif>/fuzz/target/<triple>/release/<bin>
            let exe = std::env::current_exe().unwrap_or_default();
            exe.ancestors().nth(5).map(|p| p.to_path_buf()).unwrap_or_else(|| PathBuf::from("/verif"))
        });
        let strict = std::env::var("VERIF_STRICT").is_ok();
        let print_case = std::env::var("VERIF_PRINT_CASE").is_ok();
        let mut allow = vec![];
        if let Ok(text) = std::fs::read_to_string(root.join("known_findings.json")) {
            if let Ok(v) = serde_json::from_str::<serde_json::Value>(&text) {
                for f in v["findings"].as_array().cloned().unwrap_or_default() {
                    if f["in_campaigns"].as_bool().unwrap_or(false) {
                        if let Some(s) = f["signature"].as_str() {
                            allow.push(s.to_string());
                        }
                    }
                }
            }
        }
        Env { root, strict, print_case, allow }
    })
}

/// Run `f`; classify a panic. `case` renders the replay case (JSON) lazily.
pub fn guarded(prop: &str, case: &dyn Fn() -> serde_json::Value, f: impl FnOnce()) {
    let e = env();
    let r = catch_unwind(AssertUnwindSafe(f));
    let panic = match r {
        Ok(()) => None,
        Err(_) => Some(crashsig::take_last_panic().unwrap_or(("<unknown>".into(), 0, "<unknown>".into()))),
    };
    let sig = panic.as_ref().map(|(file, line, msg)| crashsig::signature_here(prop, file, *line, msg));
    if e.print_case {
        // one CASE/SIGNATURE pair per panicking call (the runner script takes the first pair)
        if let Some(s) = &sig {
            println!("CASE {}", case());
            println!("SIGNATURE {s}");
        }
        return;
    }
    let (Some((file, line, msg)), Some(sig)) = (panic, sig) else { return };
    if !e.strict && e.allow.iter().any(|a| *a == sig) {
        return;
    }
    eprintln!("NEW PANIC property={prop} signature={sig}\n  at {file}:{line}: {msg}\n  case={}", case());
    std::process::abort();
}

pub const LANGUAGES: [&str; 5] = ["en", "es", "fr", "de", "it"];

pub fn locales() -> &'static Vec<String> {
    static L: OnceLock<Vec<String>> = OnceLock::new();
    L.get_or_init(|| {
        let mut l = ironcalc_base::get_supported_locales();
        l.sort();
        // "en" first
        l.sort_by_key(|x| x != "en");
        l
    })
}

pub fn leak(s: &str) -> &'static str {
    Box::leak(s.to_string().into_boxed_str())
}

/// (language id, locale id) chosen by one byte; 0 is en/en.
pub fn config(b: u8) -> (&'static str, &'static str) {
    static C: OnceLock<Vec<(&'static str, &'static str)>> = OnceLock::new();
    let c = C.get_or_init(|| {
        let mut v = vec![];
        for l in LANGUAGES {
            for loc in locales() {
                v.push((l, leak(loc)));
            }
        }
        v
    });
    c[b as usize % c.len()]
}

pub fn text_of(data: &[u8]) -> String {
    String::from_utf8_lossy(data).to_string()
}
