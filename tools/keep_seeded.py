#!/usr/bin/env python3
"""Development tool: copy an evaluated seeded mutant into /verif/seeded/<id>/<slug>/ with meta.json.
usage: keep_seeded.py <id> <src mut dir> <slug> <caught-by text> """
import json, os, shutil, sys
pid, src, slug, caught = sys.argv[1:5]
dst = f"/verif/seeded/{pid}/{slug}"
os.makedirs(dst, exist_ok=True)
shutil.copy(f"{src}/patch.diff", f"{dst}/patch.diff")
shutil.copy(f"{src}/demo.rs", f"{dst}/demo.rs")
notes = open(f"{src}/notes.md").read()
meta = {
    "property": pid,
    "author": "independent sub-agent given only the property text and its own git worktree of /repo",
    "needs_to_manifest": notes[:1500],
    "confirmed": "patch applies to /repo HEAD; demo (base/tests/seed_demo.rs) FAILS with the change and PASSES without; sub-agent ran the full suite with the change (all pre-existing tests pass)",
    "what_was_run": f"tools/eval_seeded.sh {pid} <seed dir> in the isolated workspace /root/scratch/me-mut (engine worktree + harness copy); checks ./check <id> quick with VERIF_SEED=1,2",
    "caught_by": caught,
}
json.dump(meta, open(f"{dst}/meta.json", "w"), indent=1)
print("kept", dst)
