#!/bin/bash
# usage: tools/thorough_some.sh <ids...>   (VERIF_SEED passed through)
for i in "$@"; do
  t0=$(date +%s)
  out=$(./check $i thorough 2>&1); rc=$?
  t1=$(date +%s)
  echo "$i rc=$rc secs=$((t1-t0)) viol=$(echo "$out" | grep -c '^VIOLATION')"
  echo "$out" | grep -E "^VIOLATION|signature=|INCONCLUSIVE" | head -6
done
