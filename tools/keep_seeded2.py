#!/usr/bin/env python3
"""Development tool: read eval_seeded2.sh result logs and copy every evaluated mutant into
/verif/seeded/<id>/<slug>/ (patch.diff, demo.rs, meta.json).
usage: keep_seeded2.py <results log>... """
import json, os, re, shutil, sys

def parse(log):
    cur = None
    out = []
    for line in open(log):
        line = line.rstrip("\n")
        m = re.match(r"=== (C\d\d) (\S+)$", line)
        if m:
            cur = {"id": m.group(1), "dir": m.group(2), "checks": [], "demo_with": None, "demo_without": None, "apply": True}
            out.append(cur)
            continue
        if cur is None:
            continue
        if line.startswith("PATCH DOES NOT APPLY"):
            cur["apply"] = False
        m = re.match(r"check (C\d\d) seed (\d+): (.*)$", line)
        if m:
            rest = m.group(3)
            v = re.search(r"violations=(\d+)", rest)
            sig = re.search(r"signature=(\S+)", rest)
            camp = re.search(r"campaign=(\S+)", rest)
            cur["checks"].append({"check": m.group(1), "seed": int(m.group(2)), "violations": int(v.group(1)) if v else None,
                                  "signature": sig.group(1) if sig else None, "campaign": camp.group(1) if camp else None})
        if line.startswith("demo WITH change:"):
            cur["demo_with"] = line.split(":", 1)[1].strip()
        if line.startswith("demo WITHOUT change:"):
            cur["demo_without"] = line.split(":", 1)[1].strip()
    return out

# all runs of one mutant (same directory name), in the order of the logs given
history = {}
for log in sys.argv[1:]:
    for m in parse(log):
        history.setdefault(os.path.basename(m["dir"]), []).append(m)

def rank(m):
    # re-evaluations were run from copies under x*/ (last round), w*/ (earlier rounds)
    d = os.path.basename(os.path.dirname(m["dir"]))
    return (2 if d.startswith("x") else 1 if d.startswith("w") else 0, d)

for name, runs in history.items():
    runs.sort(key=rank)
    for m in [runs[-1]]:
        earlier_missed = any(
            not any((c["violations"] or 0) > 0 for c in r["checks"] if c["check"] == r["id"]) for r in runs[:-1]
        )
        src = m["dir"]
        if not m["apply"] or not os.path.exists(f"{src}/patch.diff"):
            print("skip (does not apply)", src); continue
        ok_demo = (m["demo_with"] or "").startswith("test result: FAILED") and (m["demo_without"] or "").startswith("test result: ok")
        if not ok_demo:
            print("skip (demo not confirmed)", src, m["demo_with"], m["demo_without"]); continue
        patched = re.findall(r"^\+\+\+ b/(\S+)", open(f"{src}/patch.diff").read(), re.M)
        base = os.path.splitext(os.path.basename(patched[0]))[0] if patched else "change"
        n = re.search(r"mut(\d+)", os.path.basename(src)).group(1)
        slug = f"mut{n}-{base}".replace("_", "-")
        dst = f"/verif/seeded/{m['id']}/{slug}"
        os.makedirs(dst, exist_ok=True)
        shutil.copy(f"{src}/patch.diff", f"{dst}/patch.diff")
        shutil.copy(f"{src}/demo.rs", f"{dst}/demo.rs")
        notes = open(f"{src}/notes.md").read() if os.path.exists(f"{src}/notes.md") else ""
        own = [c for c in m["checks"] if c["check"] == m["id"]]
        caught = [c for c in own if (c["violations"] or 0) > 0]
        if caught:
            sigs = sorted({c["signature"] for c in caught if c["signature"]})
            cb = f"caught by ./check {m['id']} quick on {len(caught)} of {len(own)} seeds (VIOLATION lines: {', '.join(str(c['violations']) for c in own)}); first signature(s): {'; '.join(sigs)}"
            if earlier_missed:
                cb = "first missed, caught after the check was strengthened (see DESIGN.md 8.5): " + cb
        else:
            others = [c for c in m["checks"] if c["check"] != m["id"] and (c["violations"] or 0) > 0]
            cb = f"NOT caught by ./check {m['id']} quick (seeds 1, 2)"
            if others:
                cb += "; caught by " + ", ".join(sorted({f"./check {c['check']} quick ({c['signature']})" for c in others}))
        meta = {
            "property": m["id"],
            "author": "independent sub-agent given only the property text and its own git worktree of /repo",
            "needs_to_manifest": notes[:1800],
            "confirmed": "patch applies to /repo HEAD; the demonstration FAILS with the change and PASSES without it (re-run here); the sub-agent ran the full suite with the change (all pre-existing tests pass)",
            "what_was_run": "tools/eval_seeded2.sh in an isolated workspace (engine worktree at /repo HEAD + copy of /verif pointing at it): ./check <id> quick with VERIF_SEED=1,2; then the demonstration with and without the change",
            "caught": bool(caught),
            "caught_by": cb,
            "runs": m["checks"],
        }
        json.dump(meta, open(f"{dst}/meta.json", "w"), indent=1)
        print("kept", dst, "CAUGHT" if caught else "MISSED")
