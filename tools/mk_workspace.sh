#!/bin/bash
# Development tool: creates an isolated workspace for a builder (sub-agent):
#   /root/scratch/<name>/repo   git worktree of /repo (HEAD, detached) -- may be patched freely
#   /root/scratch/<name>/verif  copy of /verif (no build output) whose harness points at that worktree
# usage: tools/mk_workspace.sh <name>
set -e
N="$1"; W=/root/scratch/$N
rm -rf "$W"; mkdir -p "$W"
git -C /repo worktree prune
git -C /repo worktree add --detach "$W/repo" HEAD >/dev/null
mkdir -p "$W/verif"
rsync -a --exclude target --exclude out --exclude .git /verif/ "$W/verif/"
sed -i "s|/repo/base|$W/repo/base|; s|/repo/xlsx|$W/repo/xlsx|" "$W/verif/harness/Cargo.toml"
echo "workspace $W ready; build: cd $W/verif/harness && CARGO_NET_OFFLINE=true cargo build --release --offline; run: VERIF_ROOT=$W/verif ./target/release/vcheck <id>"
