#!/usr/bin/env python3
"""Development tool: replays every listed finding strictly; entries whose replay no longer fails
are removed from known_findings.json (their replay files are kept as regression inputs).
Prints what was removed. Never used at check run time."""
import json, os, subprocess, re, sys
ROOT = os.path.dirname(os.path.dirname(os.path.abspath(__file__)))
VC = os.path.join(ROOT, "harness/target/release/vcheck")
kf = json.load(open(os.path.join(ROOT, "known_findings.json")))
keep = []
for f in kf["findings"]:
    if not f.get("replay"):
        keep.append(f); continue
    out = subprocess.run([VC, "--replay", os.path.join(ROOT, f["replay"])], capture_output=True, text=True,
                         env=dict(os.environ, VERIF_ROOT=ROOT))
    m = re.search(r"signature=(.*)", out.stdout)
    if out.returncode == 0:
        print("REMOVED (passes now):", f["property"], f["signature"])
    elif m and m.group(1).strip() != f["signature"]:
        print("CHANGED signature:", f["property"], f["signature"], "->", m.group(1).strip())
        if "--update-signatures" in sys.argv:
            f["signature"] = m.group(1).strip()
            rp = os.path.join(ROOT, f["replay"])
            doc = json.load(open(rp)); doc["signature"] = f["signature"]
            json.dump(doc, open(rp, "w"), indent=1, ensure_ascii=False)
        keep.append(f)
    else:
        keep.append(f)
kf["findings"] = keep
json.dump(kf, open(os.path.join(ROOT, "known_findings.json"), "w"), indent=1, ensure_ascii=False)
