#!/usr/bin/env python3
"""Development tool: register a violation file as a known finding.
usage: add_finding.py <violation.json> <slug> "<what fails>" [avoid-switch ...]
Copies the shrunk case to replays/<property>/<slug>.json and appends to known_findings.json.
(Never used at check run time.)"""
import json, os, sys
ROOT = os.path.dirname(os.path.dirname(os.path.abspath(__file__)))
src, slug, what = sys.argv[1:4]
avoid = sys.argv[4:]
d = json.load(open(src))
prop = d["property"]
os.makedirs(os.path.join(ROOT, "replays", prop), exist_ok=True)
rel = f"replays/{prop}/{slug}.json"
json.dump(d, open(os.path.join(ROOT, rel), "w"), indent=1, ensure_ascii=False)
kf = json.load(open(os.path.join(ROOT, "known_findings.json")))
kf["findings"] = [f for f in kf["findings"] if not (f["property"] == prop and f["signature"] == d["signature"])]
kf["findings"].append({"property": prop, "signature": d["signature"], "what": what, "replay": rel, "avoid": avoid})
json.dump(kf, open(os.path.join(ROOT, "known_findings.json"), "w"), indent=1, ensure_ascii=False)
print("added", prop, d["signature"], rel)
