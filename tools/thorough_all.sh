#!/bin/bash
for i in $(seq -w 1 34); do
  t0=$(date +%s)
  out=$(./check C$i thorough 2>&1); rc=$?
  t1=$(date +%s)
  echo "C$i rc=$rc secs=$((t1-t0)) viol=$(echo "$out" | grep -c '^VIOLATION')"
  echo "$out" | grep -E "^VIOLATION|signature=" | head -6
done
