# Table of registered checks; exec'd by gen_manifest.py
HOOK_COMMITS = ["46d1de3", "2d483ad"]
EXTRA_ENGINES = []
NOT_APPLICABLE = {}
NOTES = ("Every check: ./check <id> <tier> rebuilds harness/ against /repo's working tree (feature verif on), "
         "replays replays/<id>/ and the known findings (known_findings.json), runs the generated campaigns "
         "seeded by VERIF_SEED, and rewrites evidence/<id>.json. Exit 2 = inconclusive (build/watchdog), never a violation.")

add("C21", "exhaustive enumeration vs integer-only calendar reference",
    "Every serial 1..=2958465 is checked against an independent civil-from-days reference for from_excel_date, date_to_serial_number and format_number(yyyy-mm-dd); YEAR/MONTH/DAY/WEEKDAY/DATE/TEXT and typed ISO dates are checked through the model on all month boundaries, leap days and a stride sample (quick) or on every serial (thorough). The input space is finite and enumerated completely, so for the pure functions this is exhaustive.",
    "Trusted: the reference calendar arithmetic in harness/src/props/c21.rs (Hinnant's algorithm); locale en only for the model-level part.")

add("C01", "stateful property-based testing: generated operation histories vs recorded snapshots (undo walk-back)",
    "Generated histories of UserModel operations (all recording op kinds) are executed on the real engine; the observable snapshot (contents, typed values, formatted text, resolved styles, row/column sizes/hidden/styles run-length normalised, sheets, frozen panes, grid lines, defined names, named styles, links, conditional formats with resolved dxf, theme, workbook name/locale/timezone) is recorded after every operation that grew the undo stack, then every undo step is compared against the recorded snapshot and stack lengths. Exploration only; while known findings are listed the generator is restricted (profiles Edit/Structural, run-time guards) and the restrictions are counted in the evidence.",
    "Trusted: snapshot reader (public getters + Model::workbook for enumeration), hook H2 (history lengths). Defined-name formulas compared case-insensitively; sizes to 10 significant digits; view state excluded.")

add("C02", "stateful property-based testing: random undo/redo/new-op walks vs list-and-cursor reference model",
    "A generated prefix of operations followed by a random walk over undo, redo and new operations; the reference model is a list of recorded snapshots with a cursor (a new operation truncates after the cursor). After every step the observable snapshot must equal list[cursor] and can_undo/can_redo and the undo/redo stack lengths must match the cursor. Undo mismatches are attributed to C01, redo/truncation/flag mismatches to C02.",
    "Trusted: snapshot reader, hook H2. Restricted generator profiles while known findings are listed (shared with C01).")
add("C04", "fault-argument enumeration + property-based prefixes: failed call must leave snapshot and history unchanged",
    "A finite table of (operation kind, invalid-argument class) pairs covering every class named in the property (nonexistent sheet, out-of-grid coordinates, ranges crossing the grid edge, non-positive counts, negative sizes, invalid timezone/locale/colour/style path/value, duplicate/invalid sheet, defined and style names, edits splitting an array formula, inserts pushing data off the grid, deleting the only sheet, unknown conditional-format index/range) is enumerated completely after fixed prefixes and sampled after generated histories with a non-empty redo list. Whenever the call returns Err the snapshot, can_undo/can_redo and stack lengths must be unchanged and the next undo must behave as in the same history without the failed call.",
    "Trusted: snapshot reader, hook H2. Only calls that return Err are asserted (accepted or panicking calls are labelled). View state excluded.")

add("C03", "stateful property-based testing with generated flush schedules: origin vs replica snapshot equality",
    "Generated histories (operations, undo, redo) on an origin model with a generated flush schedule (Flush markers at generated points, after every step, once at the end); a replica loaded from the origin's initial bytes applies every flushed batch; after each batch apply_external_diffs must return Ok and the observable snapshots (minus view state) must be equal. The harness owns the schedule, so 'any choice of when the queue is flushed' is explored as a generated parameter; a failing case is re-run with per-step flushes to name the first diverging operation.",
    "Trusted: snapshot reader. Single replica, same language on both sides; restricted generator profiles while findings are listed; conditional-format rules with a differential format are not sent (listed finding).")

add("C26", "property-based round trip over states reached by generated histories: decode(encode(W)) == W and snapshot equality after reload",
    "States reached by generated UserModel histories (restricted profiles plus the full operation language in en/en) are serialised with to_bytes and loaded with from_bytes; the decoded Workbook value must equal the original and the observable snapshot after evaluate must be the same (contents, formula texts, typed values, styles, structure).",
    "Trusted: snapshot reader, Workbook: PartialEq. Error message/origin strings are stripped before comparison. Non-English language/locale states and CSE array formulas are excluded from the campaigns while the corresponding findings are listed (replay files keep them exercised).")

add("C27", "stateful property-based testing: structural invariant checker after every step of generated histories",
    "Generated histories over the full UserModel operation language in every locale/language (valid arguments from small interacting domains, invalid arguments from C04's table, failed operations, undo, redo); after every step an invariant checker over Model::workbook asserts exactly the clauses of the property: valid and case-insensitively unique sheet names, unique sheet ids, cells inside the grid, existing style / shared-string / formula indices (and parsed-formula table in sync), sorted disjoint in-grid column descriptors with min<=max, unique row descriptors, every spill cell covered by an array-formula anchor, disjoint array ranges, defined-name scopes that exist.",
    "Trusted: the invariant checker in harness/src/props/c27.rs. CSE array formulas are excluded from the campaign while their findings are listed (replays keep them exercised); a case ends when an operation panics.")
add("C28", "stateful property-based testing: selection validity predicate after every step of sheet/navigation-heavy histories",
    "Generated histories mixing sheet add/delete/hide/unhide/move/duplicate at any index relative to the selected sheet, hidden rows/columns including the grid edges, set_selected_*, arrow keys, page up/down, selection expansion, area selecting, navigate-to-edge, all recording operations, undo and redo; after every step the selected sheet index must be < sheet count, the view sheet must be the selected sheet, the selected cell must lie inside the normalised selected range and everything inside the grid.",
    "Trusted: UserModel::get_selected_view / get_selected_sheet as observation points. Navigation arguments are valid cells. Single view (view id 0).")
