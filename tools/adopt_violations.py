#!/usr/bin/env python3
"""Development aid: turn shrunk violation files (out/violations/<id>/*.json) into listed known
findings: writes replays/<id>/<slug>.json and appends to known_findings.json (in_campaigns: true).
Usage: tools/adopt_violations.py C25 [--what-prefix TEXT]   (run from the verif root)
Only for triaged, genuine findings."""
import json, sys, os, re, glob, hashlib

prop = sys.argv[1]
root = os.path.dirname(os.path.dirname(os.path.abspath(__file__)))
kf_path = os.path.join(root, "known_findings.json")
kf = json.load(open(kf_path))
known = {(f["property"], f["signature"]) for f in kf["findings"]}
os.makedirs(os.path.join(root, "replays", prop), exist_ok=True)
added = 0
for path in sorted(glob.glob(os.path.join(root, "out", "violations", prop, "*.json"))):
    d = json.load(open(path))
    sig = d["signature"]
    if (prop, sig) in known:
        continue
    parts = sig.split(":")
    # <prop>:panic:<crate>:<file>:<fn>:...
    stem = "-".join(p for p in parts[3:5]) if len(parts) > 4 else "case"
    stem = re.sub(r"[^A-Za-z0-9]+", "-", stem.replace(".rs", "")).strip("-").lower()
    slug = f"{stem}-{hashlib.sha1(sig.encode()).hexdigest()[:6]}"
    rel = f"replays/{prop}/{slug}.json"
    json.dump({"property": prop, "campaign": d["campaign"], "signature": sig, "case": d["case"]},
              open(os.path.join(root, rel), "w"), indent=1, ensure_ascii=False)
    detail = d["detail"]
    m = re.search(r"panic at (\S+?):(\d+): (.*)", detail, re.S)
    what = detail[:200]
    if m:
        f = m.group(1).split("/repo/")[-1]
        what = f"{f}:{m.group(2)} panics ({m.group(3).strip()[:90]})"
    kf["findings"].append({"property": prop, "signature": sig, "what": what, "replay": rel,
                           "avoid": [], "in_campaigns": True})
    known.add((prop, sig))
    added += 1
    print("adopted", slug, "::", what)
json.dump(kf, open(kf_path, "w"), indent=1, ensure_ascii=False)
print(added, "findings adopted")
