#!/usr/bin/env python3
"""Development tool: (re)creates the hand-minimised C01/C02 known-finding replay files."""
import sys, os
sys.path.insert(0, os.path.dirname(os.path.abspath(__file__)))
from findings_lib import register
def case(ops, profile="Full", locale="en", language="en"):
    return {"locale": locale, "language": language, "profile": profile, "ops": ops}
def inp(r, c, t, s=0): return {"Input": {"s": s, "row": r, "col": c, "text": t}}
A = lambda s,row,col,w,h: {"s": s, "row": row, "col": col, "w": w, "h": h}
link = {"type": "External", "target": "https://example.com", "tooltip": None}
cf = {"type": "CellIs", "operator": "GreaterThan", "formula": "0", "formula2": None, "stop_if_true": False,
      "format": {"font": {"b": False}, "fill": {"color": "#FF0000"}, "border": None, "num_fmt": None, "alignment": None}}
F = [
 ("input-implies-format", case([inp(1,1,"10%")]),
  "undo of a typed value leaves the number format / quote prefix the input implied on the now-empty cell (also: row/column/precedent-inferred styles; blocks re-insertion at the grid edge)", ["restricted-profiles"]),
 ("delete-rows-leaves-ref", case([inp(3,1,"=A1+1"), {"DeleteRows": {"s":0,"row":1,"n":1}}]),
  "undo of delete_rows/delete_columns does not repair formulas that referenced the deleted band (they keep #REF!)", []),
 ("resize-hidden-column", case([{"ColsHidden": {"s":0,"c1":5,"c2":5,"hidden":True}}, {"ColsWidth": {"s":0,"c1":4,"c2":5,"width":20.0}}]),
  "set_columns_width on a hidden column records 0 as the old width; undoing resize then hide leaves width 0", []),
 ("input-into-hidden-row", case([{"RowsHidden": {"s":0,"r1":6,"r2":8,"hidden":True}}, inp(6,1,"123456789012345678")]),
  "typing into a hidden row auto-fits it from height 0; undo of hide then shows height 0", []),
 ("autofill-drops-link", case([{"LinkSet": {"s":0,"row":8,"col":8,"link":link,"label":None}}, {"AutofillRows": {"a": A(0,4,6,3,2), "to_row": 8}}]),
  "auto_fill over a linked cell removes the link; undo does not restore it", []),
 ("delete-sheet-drops-links", case([{"LinkSet": {"s":0,"row":1,"col":1,"link":link,"label":None}}, "NewSheet", {"DeleteSheet": 0}]),
  "undo of delete_sheet does not restore the sheet's hyperlinks (nor conditional formats)", []),
 ("insert-rows-link-not-moved-back", case([inp(10,1,"https://example.com/x"), {"InsertRows": {"s":0,"row":1,"n":1}}]),
  "undo of insert/delete/move rows/columns does not move hyperlinks back", []),
 ("delete-rows-cf", case([{"CfAdd": {"s":0,"range":"A3:A4","rule":cf}}, {"DeleteRows": {"s":0,"row":1,"n":3}}]),
  "undo of delete rows/columns does not restore conditional-format ranges it cut", []),
 ("insert-cols-quoted-formula", case([inp(1,1,"'=1+1"), {"InsertCols": {"s":0,"col":1,"n":1}}]),
  "row/column insert/delete/move re-types cells: quote-prefixed text '=1+1 comes back as a formula", []),
 ("delete-cols-long-number", case([inp(1,3,"123456789012345678"), {"DeleteCols": {"s":0,"col":1,"n":1}}]),
  "row/column insert/delete/move re-types cells: numbers lose digits beyond 15", []),
 ("rename-ghost-range", case([inp(1,1,"=SUM(Sheet2!A1:A1)"), {"RenameSheet": [0, "New name"]}]),
  "renaming a sheet rewrites range references to a nonexistent sheet; undo renames them to the old name of the renamed sheet", []),
 ("duplicate-sheet-english-name-in-es", case([inp(1,1,"=COUNTA(A1:A1)"), {"DuplicateSheet": 0}], language="es"),
  "a formula typed with English function names under another language changes its display/meaning when formulas are re-parsed (undo of duplicate/new sheet)", []),
 ("rename-in-es-locale", case([inp(1,1,"=SEQUENCE(1,2)"), {"SetLocale": "es"}, {"RenameSheet": [0, "New name"]}]),
  "rename_sheet re-parses stored formulas with the active locale: after undo =SEQUENCE(1;2) has become =SEQUENCE(1,2)", []),
 ("cse-array-cycle-stale", case([{"ArrayFormula": {"s":0,"row":9,"col":2,"w":2,"h":1,"text":"=SUM(C7:C9)"}}, inp(6,2,"={1,2;3,4}")]),
  "a CSE array formula that reads its own range shows a history-dependent value instead of #CIRC!; the value differs after undo", []),
 ("name-delete-after-sheet-delete", case([{"NameNew": {"name":"nm1","scope":None,"formula":"Sheet1!$A$1"}}, {"NameUpdate": {"name":"nm1","scope":None,"new_name":"nm1","new_scope":None,"formula":"$B$2"}}, {"NameDelete": {"name":"nm1","scope":None}}]),
  "update_defined_name accepts formulas new_defined_name rejects (no sheet, nonexistent or since deleted sheet); undo of a later delete of that name then fails with Err", []),
 ("named-style-update-after-restyle", case([{"NamedStyleCreate": {"name":"MyStyle","num_only":False,"style":{"border":{},"fill":{"color":"#123ABC"},"font":{"color":"#FF0000","family":2,"name":"Inter","scheme":"minor","sz":10},"num_fmt":"#,##0.00","quote_prefix":False}}}, {"NamedStyleApply": {"name":"MyStyle"}}, {"NamedStyleUpdate": {"name":"MyStyle","new_name":"MyStyle","num_only":False,"style":{"border":{},"fill":{"color":"#FF0000"},"font":{"color":"#00FF00","family":2,"name":"Inter","scheme":"minor","sz":10},"num_fmt":"general","quote_prefix":False}}}, {"PasteStyles": {"h":1,"w":1,"style":{"border":{},"fill":{"color":"#FF0000"},"font":{"color":"#FF0000","family":2,"name":"Inter","scheme":"minor","sz":10},"num_fmt":"general","quote_prefix":False}}}]),
  "undo of a cell style change re-applies the old style as explicit formatting, losing the cell's link to its named style; undoing an earlier update of that named style then no longer reverts the cell", []),
]

F.append(("rename-after-case-variant-name", case([{"RenameSheet": [0, "sheet1"]}, {"NameNew": {"name":"nm1","scope":None,"formula":"Sheet1!$A$1:$B$3"}}, {"DuplicateSheet": 0}, {"RenameSheet": [1, "New name"]}]),
  "with a sheet renamed to a case variant of its old name (Sheet1 -> sheet1), a defined name spelled with the old case is retargeted to a different sheet when another sheet is renamed and the rename undone", []))
F.append(("name-update-reparses-in-es-locale", case([{"NameNew": {"name":"nm1","scope":None,"formula":"Sheet1!$A$1"}}, inp(6,8,"=MAX(1,1)"), {"SetLocale": "es"}, inp(6,8,"0"), {"NameUpdate": {"name":"nm1","scope":None,"new_name":"nm2","new_scope":None,"formula":"Sheet1!$A$1"}}]),
  "renaming a defined name re-parses every stored formula with the active locale: after set_locale(es) the stored MAX(1,1) (restored by undo) has become MAX(1.1)", []))
F.append(("rename-name-shadowing-another-scope", case([inp(4,4,"=alpha+1"), {"NameNew": {"name":"alpha","scope":None,"formula":"Sheet1!$A$1"}}, {"NameNew": {"name":"bravo","scope":0,"formula":"Sheet1!$B$2"}}, {"NameUpdate": {"name":"bravo","scope":0,"new_name":"alpha","new_scope":0,"formula":"Sheet1!$B$2"}}]),
  "renaming a sheet-scoped name to the spelling of a global name and undoing it re-binds formulas by spelling: =alpha+1 (global alpha) becomes =bravo+1", []))
register("C01", "histories", [(slug, c, what, avoid, slug == "input-implies-format") for slug, c, what, avoid in F])

F2 = [
 ("autofill-redo-retypes-exponent", case([inp(6,8,"123456789012345678"), {"AutofillRows": {"a": A(0,6,7,2,1), "to_row": 5}}, "Undo", "Redo"]),
  "redo replays cell values by re-typing their display text: an auto-filled 18-digit number is re-typed as 1.23456789012346E+17 and gets the exponent format it did not have after the original operation", [], False),
]
F2.append(("autofill-redo-infers-format", case([inp(9,5,"=B$8-A1*A1"), {"SelectRange": {"r1":8,"c1":1,"r2":8,"c2":1}}, {"PasteStyles": {"h":1,"w":2,"style":{"border":{},"fill":{"color":"#FF0000"},"font":{"color":"#FF0000","family":2,"name":"Inter","scheme":"minor","sz":10},"num_fmt":"0.00","quote_prefix":False}}}, {"AutofillRows": {"a": A(0,9,4,2,1), "to_row": 10}}, "Undo", "Redo"], profile="Full"),
  "redo re-types auto-filled formulas, which infers a number format from formatted precedents that the original fill did not apply (same root cause as autofill-redo-retypes-exponent)", [], False))
register("C02", "walk", F2)

arr = [{"ArrayFormula": {"s":0,"row":2,"col":2,"w":2,"h":2,"text":"=A1:B2+1"}}]
F4 = [
 ("cut-paste-splitting-array", {"profile":"Edit","prefix":[{"UpdateStyle": {"a": A(0,1,1,3,3), "path":"font.i","value":"true"}}, inp(1,1,"0")],
   "bad": {"reason":"splits-array-formula","setup":arr,"op":{"CopyPaste": {"src": A(0,3,3,1,1), "ts":0,"trow":6,"tcol":6,"cut":True}}}},
  "cutting a cell out of a CSE array formula returns Err (it would split the array) after the paste target has already received the source cell's style", [], True),
]
register("C04", "random-prefix", F4)

cfop = {"CfAdd": {"s":0,"range":"A1:A1","rule":cf}}
F3 = [
 ("cf-dxf-not-sent", {"profile":"Full","prefix":[],"ops":[cfop],"flush_every_step":False},
  "add_conditional_formatting queues a diff that carries the dxf index allocated in the origin's style pool; the replica's pool does not have it, so the rule has no format there", [], False),
 ("cf-update-dxf-not-sent", {"profile":"Full","prefix":[cfop],"ops":[{"CfUpdate": {"s":0,"idx":0,"range":"A1:A1","rule":cf}}],"flush_every_step":False},
  "update_conditional_formatting: same dxf-index defect as add_conditional_formatting", [], False),
]
F3.append(("autofill-replica-infers-format", {"profile":"Full","prefix":[],"flush_every_step":False,"ops":[{"SelectCell": {"row":10,"col":1}}, {"PasteStyles": {"h":2,"w":2,"style":{"border":{},"fill":{"color":"#FF0000"},"font":{"color":"#FF0000","family":2,"name":"Inter","scheme":"minor","sz":10},"num_fmt":"0.00","quote_prefix":False}}}, inp(1,1,"0"), inp(3,5,"=Sheet2!A1*A4"), {"AutofillRows": {"a": A(0,2,4,2,3), "to_row": 9}}]},
  "a replica applies an auto-fill by re-typing the filled cells, which infers a number format from formatted precedents that the origin did not apply", [], False))
register("C03", "replica", F3)

def arrf(r,c,w,h,t,s=0): return {"ArrayFormula": {"s":s,"row":r,"col":c,"w":w,"h":h,"text":t}}
cff = {"type":"Formula","formula":"$A1>2","stop_if_true":True,"format":{"font":{"b":False},"fill":{"color":"#FF0000"},"border":None,"num_fmt":None,"alignment":None}}
F26 = [
 ("english-function-name-in-es", case([inp(1,1,"=IF(B1>0,B1,\"neg\")")], language="es"),
  "a formula typed with English function names while the display language is Spanish is stored so that it shows #NAME? now but resolves to the Spanish function after save/load", [], False),
 ("ref-error-literal-in-de", case([inp(6,1,"=-A3%"), {"DeleteRows": {"s":0,"row":1,"n":3}}], language="de"),
  "after deleting referenced rows in a non-English language the formula evaluates to #ERROR! in memory but to #REF! after save/load", [], False),
 ("cse-array-reads-own-range", case([arrf(9,2,2,1,"=A1&\"-\"&C9")]),
  "a CSE array formula that reads a cell of its own range has a history-dependent value instead of #CIRC!; reload computes a different value", [], False),
 ("cut-paste-part-of-cse-array", case([arrf(5,3,2,1,"=SUM(Sheet1!A1:A1)"), {"CopyPaste": {"src": A(0,5,3,1,1), "ts":0,"trow":1,"tcol":2,"cut":True}}]),
  "cut/paste of the anchor of a CSE array leaves the pasted cell unevaluated (#ERROR! shown); reload evaluates it", [], False),
]
register("C26", "states", F26)

def c27(ops, locale="en", language="en"): return {"locale":locale,"language":language,"ops":ops}
F27 = [
 ("cse-array-overlapped-by-array", c27([arrf(2,4,1,2,"=A1+0"), arrf(3,3,2,1,"=A1+0")]),
  "set_user_array_formula accepts a range that overlaps an existing CSE array: the two array ranges overlap", ["c27-cse-arrays"], False),
 ("cse-array-over-dynamic-spill", c27([inp(5,6,"={1,2;3,4}"), arrf(4,5,2,2,"=A1+0")]),
  "a CSE array formula placed over part of a dynamic spill leaves spill cells whose anchor is no longer an array formula", ["c27-cse-arrays"], False),
 ("delete-sheet-leaves-scoped-name", c27([{"NewSheet": None} if False else "NewSheet", {"NameNew": {"name":"nm1","scope":1,"formula":"Sheet1!$A$1"}}, {"DeleteSheet": 1}]),
  "delete_sheet leaves defined names scoped to the deleted sheet behind (their sheet id no longer exists)", [], True),
]
register("C27", "histories", F27)
