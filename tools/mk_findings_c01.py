#!/usr/bin/env python3
"""Development tool: (re)creates the hand-minimised C01 known-finding replay files and their
entries in known_findings.json. Each case is run through `vcheck --replay` to obtain the exact
signature. Not used at check run time."""
import json, os, subprocess, sys, re
ROOT = os.path.dirname(os.path.dirname(os.path.abspath(__file__)))
VC = os.path.join(ROOT, "harness/target/release/vcheck")
def case(ops, profile="Full", locale="en", language="en"):
    return {"locale": locale, "language": language, "profile": profile, "ops": ops}
def inp(r, c, t, s=0): return {"Input": {"s": s, "row": r, "col": c, "text": t}}
A = lambda s,row,col,w,h: {"s": s, "row": row, "col": col, "w": w, "h": h}
link = {"type": "External", "target": "https://example.com", "tooltip": None}
cf = {"type": "CellIs", "operator": "GreaterThan", "formula": "0", "formula2": None, "stop_if_true": False,
      "format": {"font": {"b": False}, "fill": {"color": "#FF0000"}, "border": None, "num_fmt": None, "alignment": None}}
F = [
 ("input-implies-format", case([inp(1,1,"10%")]),
  "undo of a typed value leaves the number format / quote prefix the input implied on the now-empty cell (also: row/column/precedent-inferred styles; blocks re-insertion at the grid edge)", ["restricted-profiles"]),
 ("delete-rows-leaves-ref", case([inp(3,1,"=A1+1"), {"DeleteRows": {"s":0,"row":1,"n":1}}]),
  "undo of delete_rows/delete_columns does not repair formulas that referenced the deleted band (they keep #REF!)", []),
 ("resize-hidden-column", case([{"ColsHidden": {"s":0,"c1":5,"c2":5,"hidden":True}}, {"ColsWidth": {"s":0,"c1":4,"c2":5,"width":20.0}}]),
  "set_columns_width on a hidden column records 0 as the old width; undoing resize then hide leaves width 0", []),
 ("input-into-hidden-row", case([{"RowsHidden": {"s":0,"r1":6,"r2":8,"hidden":True}}, inp(6,1,"123456789012345678")]),
  "typing into a hidden row auto-fits it from height 0; undo of hide then shows height 0", []),
 ("autofill-drops-link", case([{"LinkSet": {"s":0,"row":8,"col":8,"link":link,"label":None}}, {"AutofillRows": {"a": A(0,4,6,3,2), "to_row": 8}}]),
  "auto_fill over a linked cell removes the link; undo does not restore it", []),
 ("delete-sheet-drops-links", case([{"LinkSet": {"s":0,"row":1,"col":1,"link":link,"label":None}}, "NewSheet", {"DeleteSheet": 0}]),
  "undo of delete_sheet does not restore the sheet's hyperlinks (nor conditional formats)", []),
 ("insert-rows-link-not-moved-back", case([inp(10,1,"https://example.com/x"), {"InsertRows": {"s":0,"row":1,"n":1}}]),
  "undo of insert/delete/move rows/columns does not move hyperlinks back", []),
 ("delete-rows-cf", case([{"CfAdd": {"s":0,"range":"A3:A4","rule":cf}}, {"DeleteRows": {"s":0,"row":1,"n":3}}]),
  "undo of delete rows/columns does not restore conditional-format ranges it cut", []),
 ("insert-rows-cse-array", case([{"ArrayFormula": {"s":0,"row":1,"col":1,"w":1,"h":1,"text":"=SUM(A3:A3)"}}, {"InsertRows": {"s":0,"row":1,"n":1}}]),
  "row/column insert/delete/move re-types cells: a CSE array formula comes back as a plain formula after undo", []),
 ("insert-rows-boolean-es", case([inp(5,1,"TRUE"), {"InsertRows": {"s":0,"row":1,"n":1}}], language="es"),
  "row/column insert/delete/move re-types cells: a boolean comes back as the text VERDADERO in a non-English language", []),
 ("insert-cols-quoted-formula", case([inp(1,1,"'=1+1"), {"InsertCols": {"s":0,"col":1,"n":1}}]),
  "row/column insert/delete/move re-types cells: quote-prefixed text '=1+1 comes back as a formula", []),
 ("delete-cols-long-number", case([inp(1,3,"123456789012345678"), {"DeleteCols": {"s":0,"col":1,"n":1}}]),
  "row/column insert/delete/move re-types cells: numbers lose digits beyond 15", []),
 ("rename-ghost-range", case([inp(1,1,"=SUM(Sheet2!A1:A1)"), {"RenameSheet": [0, "New name"]}]),
  "renaming a sheet rewrites range references to a nonexistent sheet; undo renames them to the old name of the renamed sheet", []),
 ("duplicate-sheet-english-name-in-es", case([inp(1,1,"=COUNTA(A1:A1)"), {"DuplicateSheet": 0}], language="es"),
  "a formula typed with English function names under another language changes its display/meaning when formulas are re-parsed (undo of duplicate/new sheet)", []),
 ("rename-in-es-locale", case([inp(1,1,"=SEQUENCE(1,2)"), {"SetLocale": "es"}, {"RenameSheet": [0, "New name"]}]),
  "rename_sheet re-parses stored formulas with the active locale: after undo =SEQUENCE(1;2) has become =SEQUENCE(1,2)", []),
 ("cse-array-cycle-stale", case([{"ArrayFormula": {"s":0,"row":9,"col":2,"w":2,"h":1,"text":"=SUM(C7:C9)"}}, inp(6,2,"={1,2;3,4}")]),
  "a CSE array formula that reads its own range shows a history-dependent value instead of #CIRC!; the value differs after undo", []),
 ("name-delete-after-sheet-delete", case([{"NameNew": {"name":"nm1","scope":None,"formula":"Sheet1!$A$1"}}, {"NameUpdate": {"name":"nm1","scope":None,"new_name":"nm1","new_scope":None,"formula":"$B$2"}}, {"NameDelete": {"name":"nm1","scope":None}}]),
  "update_defined_name accepts formulas new_defined_name rejects (no sheet, nonexistent or since deleted sheet); undo of a later delete of that name then fails with Err", []),
 ("named-style-update-after-restyle", case([{"NamedStyleCreate": {"name":"MyStyle","num_only":False,"style":{"border":{},"fill":{"color":"#123ABC"},"font":{"color":"#FF0000","family":2,"name":"Inter","scheme":"minor","sz":10},"num_fmt":"#,##0.00","quote_prefix":False}}}, {"NamedStyleApply": {"name":"MyStyle"}}, {"NamedStyleUpdate": {"name":"MyStyle","new_name":"MyStyle","num_only":False,"style":{"border":{},"fill":{"color":"#FF0000"},"font":{"color":"#00FF00","family":2,"name":"Inter","scheme":"minor","sz":10},"num_fmt":"general","quote_prefix":False}}}, {"PasteStyles": {"h":1,"w":1,"style":{"border":{},"fill":{"color":"#FF0000"},"font":{"color":"#FF0000","family":2,"name":"Inter","scheme":"minor","sz":10},"num_fmt":"general","quote_prefix":False}}}]),
  "undo of a cell style change re-applies the old style as explicit formatting, losing the cell's link to its named style; undoing an earlier update of that named style then no longer reverts the cell", []),
]
kf_path = os.path.join(ROOT, "known_findings.json")
kf = json.load(open(kf_path))
kf["findings"] = [f for f in kf["findings"] if f["property"] != "C01"]
os.makedirs(os.path.join(ROOT, "replays/C01"), exist_ok=True)
for slug, c, what, avoid in F:
    rel = f"replays/C01/{slug}.json"
    path = os.path.join(ROOT, rel)
    doc = {"property": "C01", "campaign": "histories", "case": c}
    json.dump(doc, open(path, "w"), indent=1, ensure_ascii=False)
    out = subprocess.run([VC, "--replay", path], capture_output=True, text=True).stdout
    m = re.search(r"signature=(.*)", out)
    if not m:
        print("NO FAILURE for", slug, out); os.remove(path); continue
    doc["signature"] = m.group(1).strip()
    doc["detail"] = out.split("detail:",1)[1].strip()[:2000] if "detail:" in out else ""
    json.dump(doc, open(path, "w"), indent=1, ensure_ascii=False)
    kf["findings"].append({"property": "C01", "signature": doc["signature"], "what": what, "replay": rel, "avoid": avoid, "in_campaigns": slug == "input-implies-format"})
    print(slug, "->", doc["signature"])
json.dump(kf, open(kf_path, "w"), indent=1, ensure_ascii=False)
