#!/usr/bin/env python3
"""Regenerates /verif/MANIFEST.json from the table below (run after adding a check)."""
import json, os, sys
ROOT = os.path.dirname(os.path.dirname(os.path.abspath(__file__)))
props = [json.loads(l) for l in open(os.path.join(ROOT, "properties.jsonl"))]
titles = {p["id"]: p["title"] for p in props}

# id -> (technique, level text, level note, design ref)
CHECKS = {}
def add(i, technique, text, note, exhaustive=False):
    CHECKS[i] = dict(technique=technique, text=text, note=note)

exec(open(os.path.join(ROOT, "tools", "checks_table.py")).read())

checks = []
for i in sorted(CHECKS):
    c = CHECKS[i]
    checks.append({
        "property_id": i,
        "quick_cmd": f"./check {i} quick",
        "thorough_cmd": f"./check {i} thorough",
        "evidence_file": f"evidence/{i}.json",
        "replay_cmd_template": "./check --replay {path}",
        "engine": "vcheck",
        "level_claimed": {"category": "exploration", "text": c["text"], "design_ref": f"DESIGN.md section 3, {i}"},
        "level_note": c["note"],
        "technique": c["technique"],
    })
na = [{"property_id": p["id"], "reason": NOT_APPLICABLE.get(p["id"], "check not built yet in this round (planned: see DESIGN.md section 3)")}
      for p in props if p["id"] not in CHECKS]
manifest = {
    "version": 1,
    "setup_cmd": "./check --build",
    "hooks": {
        "guard": "cargo feature `verif` of crate ironcalc_base (off by default)",
        "enable": "harness/Cargo.toml depends on ironcalc_base by path with features=[\"verif\"]; ./check rebuilds from /repo's working tree",
        "baseline_off_cmd": "cd /repo && cargo test --workspace --no-fail-fast --offline",
        "source_commits": HOOK_COMMITS,
        "add_only": True,
    },
    "engines": [
        {"name": "vcheck", "path": "harness", "serves_properties": sorted(CHECKS),
         "kind_free_text": "Rust binary: proptest used as a library (own driver loop, seeded by VERIF_SEED, shrinking on same-signature predicate), bounded-exhaustive enumerations, reference models; drives the real engine through path dependencies on /repo/base and /repo/xlsx"},
    ] + EXTRA_ENGINES,
    "checks": checks,
    "notes": NOTES,
    "not_applicable": na,
}
json.dump(manifest, open(os.path.join(ROOT, "MANIFEST.json"), "w"), indent=1)
print("checks:", len(checks), "not claimed:", len(na))
