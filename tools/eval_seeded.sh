#!/bin/bash
# Development tool: evaluate seeded mutants against the checks, in the isolated workspace me-mut.
# usage: tools/eval_seeded.sh <property id> <seed dir containing out/mutN> [extra check ids...]
# Appends to /root/scratch/me-mut/results.log
set -u
ID="$1"; SD="$2"; shift 2; EXTRA="$*"
W=/root/scratch/me-mut
LOG=$W/results.log
cd $W/repo || exit 2
for M in "$SD"/out/mut*; do
  [ -f "$M/patch.diff" ] || continue
  git checkout -q -- . ; rm -rf base/tests xlsx/tests/c[0-9]*_mut*.rs 2>/dev/null
  echo "=== $ID $M" >> $LOG
  if ! git apply "$M/patch.diff" 2>>$LOG; then echo "PATCH DOES NOT APPLY" >> $LOG; continue; fi
  (cd $W/verif/harness && CARGO_NET_OFFLINE=true cargo build --release --offline -q 2>&1 | grep -E "^error" -A5 >> $LOG)
  for C in $ID $EXTRA; do
    for S in 1 2; do
      out=$(cd $W/verif && VERIF_ROOT=$W/verif VERIF_SEED=$S timeout 1800 harness/target/release/vcheck $C 2>&1)
      echo "check $C seed $S: $(echo "$out" | grep -E "^C[0-9]+ tier" | sed 's/.*violations=/violations=/') $(echo "$out" | grep -m1 "signature=" )" >> $LOG
    done
  done
  # demonstration with the change (expected: FAILS)
  mkdir -p base/tests; cp "$M/demo.rs" base/tests/seed_demo.rs
  r=$(CARGO_NET_OFFLINE=true cargo test -q --offline -p ironcalc_base --test seed_demo 2>&1 | grep -E "^test result" | head -1)
  echo "demo WITH change: $r" >> $LOG
  git checkout -q -- .
  r=$(CARGO_NET_OFFLINE=true cargo test -q --offline -p ironcalc_base --test seed_demo 2>&1 | grep -E "^test result" | head -1)
  echo "demo WITHOUT change: $r" >> $LOG
  rm -rf base/tests
done
git checkout -q -- .
(cd $W/verif/harness && CARGO_NET_OFFLINE=true cargo build --release --offline -q 2>&1 | grep -E "^error" -A5 >> $LOG)
echo "=== done $ID" >> $LOG
