#!/usr/bin/env python3
"""Development tool: merge the property checks a builder wrote in /root/scratch/<name> into /verif.
usage: merge_workspace.py <name> C22 C23 [extra_module ...]"""
import json, os, re, shutil, sys
name = sys.argv[1]; ids = [a for a in sys.argv[2:] if re.match(r'^C\d+$', a)]; extra = [a for a in sys.argv[2:] if a not in ids]
W = f"/root/scratch/{name}/verif"; V = "/verif"
mod = open(f"{V}/harness/src/props/mod.rs").read()
for i in ids:
    m = i.lower()
    shutil.copy(f"{W}/harness/src/props/{m}.rs", f"{V}/harness/src/props/{m}.rs")
    if f"pub mod {m};" not in mod:
        mod = mod.replace("pub fn registry()", f"pub mod {m};\n\npub fn registry()", 1) if False else mod
        # insert module declaration after the last 'pub mod cNN;' line
        lines = mod.split("\n")
        idx = max(k for k, l in enumerate(lines) if l.startswith("pub mod "))
        lines.insert(idx + 1, f"pub mod {m};")
        mod = "\n".join(lines)
        mod = mod.replace("    ]\n}", f"        Prop {{ id: \"{i}\", run: {m}::run, replay: {m}::replay }},\n    ]\n}}", 1)
    src = f"{W}/replays/{i}"
    if os.path.isdir(src):
        shutil.copytree(src, f"{V}/replays/{i}", dirs_exist_ok=True)
for e in extra:
    shutil.copy(f"{W}/harness/src/props/{e}.rs", f"{V}/harness/src/props/{e}.rs")
    if f"pub mod {e};" not in mod:
        lines = mod.split("\n")
        idx = max(k for k, l in enumerate(lines) if l.startswith("pub mod "))
        lines.insert(idx + 1, f"pub mod {e};")
        mod = "\n".join(lines)
open(f"{V}/harness/src/props/mod.rs", "w").write(mod)
kw = json.load(open(f"{W}/known_findings.json")); kv = json.load(open(f"{V}/known_findings.json"))
kv["findings"] = [f for f in kv["findings"] if f["property"] not in ids] + [f for f in kw["findings"] if f["property"] in ids]
json.dump(kv, open(f"{V}/known_findings.json", "w"), indent=1, ensure_ascii=False)
print("merged", ids, extra, "findings:", sum(1 for f in kv["findings"] if f["property"] in ids))
