#!/usr/bin/env python3
"""Turn SURVEY output of `VERIF_C09_SURVEY=2 vcheck C09 > s_2.txt; VERIF_C09_SURVEY=3 vcheck C09 > s_3.txt` into
known_findings.json entries (property C09) + replays/C09/*.json:  c09_mk_findings.py s_2.txt s_3.txt
(file names must end in 2.txt / 3.txt; existing C09 entries are replaced; delete replays/C09/*.json first)."""
import json, re, sys, os
root = os.environ.get('VERIF_ROOT', '/verif')
surveys = sys.argv[1:]
entries = {}
for path in surveys:
    lines = open(path).read().split('\n')
    i = 0
    while i < len(lines):
        m = re.match(r'^SURVEY\s+(\d+) (C09:\S+)$', lines[i])
        if not m:
            i += 1
            continue
        sig = m.group(2)
        j = i + 1
        detail = []
        case = None
        while j < len(lines) and not lines[j].startswith('SURVEY'):
            l = lines[j].strip()
            if l.startswith('CASE '):
                case = json.loads(l[5:])
            else:
                detail.append(l)
            j += 1
        if sig not in entries:
            entries[sig] = (detail, case, 'shapes-2' if path.endswith('2.txt') else 'shapes-3')
        i = j

def slug(sig):
    s = sig[4:].replace('(+)','-plus').replace('(-)','-minus').replace('(%)','-pct').replace('child=*','child-any').replace('!=','-not-')
    s = re.sub(r'[^A-Za-z0-9]+', '-', s).strip('-').lower()
    return s[:90]

def switches(sig):
    sw = []
    m = re.search(r'parent=([^,]+),child=([^,]+),side=(\w+)', sig)
    if ':excel:' in sig:
        return ['C09-excel-at-below-operator']
    if m and m.group(2) != '*':
        sw.append(f'C09-combo:{m.group(1)}>{m.group(2)}@{m.group(3)}')
    if 'parent=OpRange' in sig:
        sw.append('C09-oprange-operands')
    if 'token=Error(NIMPL)' in sig:
        sw.append('C09-token:Error(NIMPL)')
    elif 'token=Error' in sig or 'Array-element:Error' in sig:
        sw.append('C09-token:Error')
    if 'Array(row-separator)' in sig:
        sw.append('C09-token:Array(row-separator)')
    if 'more-than-15' in sig:
        sw.append('C09-token:Number(more-than-15-significant-digits)')
    if 'attempt_to_multiply_with_overflow' in sig:
        sw += ['C09-column-overflow', 'C09-oprange-operands']
    if 'whole-sheet' in sig:
        sw.append('C09-token:Range(whole-sheet)')
    if 'off-grid' in sig:
        sw.append('C09-oprange-operands')
    return sw

def what(sig, detail):
    typed = next((d for d in detail if d.startswith('typed ')), '')
    form = next((d for d in detail if ' form' in d and ':' in d and not d.startswith('typed')), '')
    model = next((d for d in detail if d.startswith('model level')), '')
    model = re.sub(r' ; stored form.*', '', model)
    model = model.replace(' | blank', '')
    txt = f'{typed}; {form}; {model}'.strip('; ')
    return txt[:420]

out = []
os.makedirs(f'{root}/replays/C09', exist_ok=True)
for sig in sorted(entries):
    detail, case, campaign = entries[sig]
    name = slug(sig) + '.json'
    case = dict(case)
    case['e2e'] = []  # the replay demonstrates the parser-level failure
    json.dump({'property': 'C09', 'campaign': campaign, 'signature': sig, 'case': case},
              open(f'{root}/replays/C09/{name}', 'w'), indent=1, ensure_ascii=False)
    out.append({'property': 'C09', 'signature': sig, 'what': what(sig, detail),
                'replay': f'replays/C09/{name}', 'avoid': switches(sig), 'in_campaigns': True})
kf = json.load(open(f'{root}/known_findings.json'))
kf['findings'] = [f for f in kf['findings'] if f['property'] != 'C09'] + out
json.dump(kf, open(f'{root}/known_findings.json', 'w'), indent=1, ensure_ascii=False)
print(len(out), 'C09 findings written')
