#!/bin/bash
# Development tool: evaluate seeded mutants (layout <dir>/Cxx-mutN/{patch.diff,demo.rs}) against the
# checks, in the isolated workspace me-mut (repo worktree + copy of /verif pointing at it).
# usage: tools/eval_seeded2.sh <dir> [extra check ids applied to every mutant...]
# Appends to /root/scratch/me-mut/results2.log
set -u
SD="$1"; shift; EXTRA="$*"
W=${W:-/root/scratch/me-mut}
LOG=$W/results2.log
cd $W/repo || exit 2
for M in "$SD"/C*-mut*; do
  [ -f "$M/patch.diff" ] || continue
  ID=$(basename "$M" | cut -d- -f1)
  git checkout -q -- . ; rm -rf base/tests xlsx/tests/seed_demo.rs 2>/dev/null
  echo "=== $ID $M" >> $LOG
  if ! git apply "$M/patch.diff" 2>>$LOG; then echo "PATCH DOES NOT APPLY" >> $LOG; continue; fi
  (cd $W/verif/harness && CARGO_NET_OFFLINE=true cargo build --release --offline -q 2>&1 | grep -E "^error" -A5 >> $LOG)
  for C in $ID $EXTRA; do
    for S in 1 2; do
      out=$(cd $W/verif && VERIF_ROOT=$W/verif VERIF_SEED=$S timeout 1800 harness/target/release/vcheck $C 2>&1)
      echo "check $C seed $S: $(echo "$out" | grep -E "^C[0-9]+ tier" | sed 's/.*violations=/violations=/') $(echo "$out" | grep -m1 "signature=" | cut -c1-300)" >> $LOG
    done
  done
  # demonstration with the change (expected: FAILS), then without (expected: passes)
  if grep -q "ironcalc::" "$M/demo.rs" || grep -q "^use ironcalc::" "$M/demo.rs"; then P=ironcalc; D=xlsx/tests; else P=ironcalc_base; D=base/tests; fi
  mkdir -p $D; cp "$M/demo.rs" $D/seed_demo.rs
  r=$(CARGO_NET_OFFLINE=true cargo test -q --offline -p $P --test seed_demo 2>&1 | grep -E "^test result|^error(\[|:)" | head -1)
  echo "demo WITH change: $r" >> $LOG
  git checkout -q -- .
  r=$(CARGO_NET_OFFLINE=true cargo test -q --offline -p $P --test seed_demo 2>&1 | grep -E "^test result|^error(\[|:)" | head -1)
  echo "demo WITHOUT change: $r" >> $LOG
  rm -rf base/tests xlsx/tests/seed_demo.rs
done
git checkout -q -- .
(cd $W/verif/harness && CARGO_NET_OFFLINE=true cargo build --release --offline -q 2>&1 | grep -E "^error" -A5 >> $LOG)
echo "=== done $SD" >> $LOG
