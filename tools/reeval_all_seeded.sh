#!/bin/bash
# Development tool: re-run the quick tier of its own check against every kept seeded change
# (seeded/<id>/<slug>/patch.diff) in an isolated workspace; appends "<id> <slug> seed1=<n> seed2=<n>".
# usage: W=/root/scratch/me-mut tools/reeval_all_seeded.sh <log> <seeded dirs...>
set -u
W=${W:-/root/scratch/me-mut}
LOG="$1"; shift
cd $W/repo || exit 2
for D in "$@"; do
  ID=$(basename $(dirname "$D")); SLUG=$(basename "$D")
  git checkout -q -- . ; rm -rf base/tests
  if ! git apply "$D/patch.diff" 2>/dev/null; then echo "$ID $SLUG DOES-NOT-APPLY" >> $LOG; continue; fi
  (cd $W/verif/harness && CARGO_NET_OFFLINE=true cargo build --release --offline -q 2>&1 | grep -E "^error" -A5 >> $LOG)
  line="$ID $SLUG"
  for S in 1 2; do
    out=$(cd $W/verif && VERIF_ROOT=$W/verif VERIF_SEED=$S timeout 1800 harness/target/release/vcheck $ID 2>&1)
    v=$(echo "$out" | grep -c "^VIOLATION")
    line="$line seed$S=$v"
  done
  echo "$line $(echo "$out" | grep -m1 'signature=' | sed 's/.*signature=//' | cut -c1-100)" >> $LOG
done
git checkout -q -- .
echo "done" >> $LOG
