#!/usr/bin/env python3
"""Development tool (never used at check run time): registers hand-minimised known-finding
replay files. Each case is run through `vcheck --replay` to obtain the exact signature."""
import json, os, subprocess, re
ROOT = os.path.dirname(os.path.dirname(os.path.abspath(__file__)))
VC = os.path.join(ROOT, "harness/target/release/vcheck")

def register(prop, campaign, entries):
    """entries: list of (slug, case, what, avoid, in_campaigns)"""
    kf_path = os.path.join(ROOT, "known_findings.json")
    kf = json.load(open(kf_path))
    os.makedirs(os.path.join(ROOT, "replays", prop), exist_ok=True)
    for slug, c, what, avoid, in_campaigns in entries:
        rel = f"replays/{prop}/{slug}.json"
        path = os.path.join(ROOT, rel)
        doc = {"property": prop, "campaign": campaign, "case": c}
        json.dump(doc, open(path, "w"), indent=1, ensure_ascii=False)
        out = subprocess.run([VC, "--replay", path], capture_output=True, text=True, env=dict(os.environ, VERIF_ROOT=ROOT)).stdout
        m = re.search(r"signature=(.*)", out)
        if not m:
            print("NO FAILURE for", slug, out); os.remove(path); continue
        doc["signature"] = m.group(1).strip()
        doc["detail"] = out.split("detail:", 1)[1].strip()[:2000] if "detail:" in out else ""
        json.dump(doc, open(path, "w"), indent=1, ensure_ascii=False)
        kf["findings"] = [f for f in kf["findings"] if f.get("replay") != rel]
        kf["findings"].append({"property": prop, "signature": doc["signature"], "what": what, "replay": rel,
                               "avoid": avoid, "in_campaigns": in_campaigns})
        print(slug, "->", doc["signature"])
    json.dump(kf, open(kf_path, "w"), indent=1, ensure_ascii=False)
